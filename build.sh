#!/bin/bash
# build.sh — (re)build the harness binaries for the repository tree at $VERIF_REPO (default /repo).
# Sourced by check.sh / setup.sh. Everything generated lives under /verif/build; /repo is never written.
set -euo pipefail
export GOFLAGS=-mod=mod GOPROXY=off GOSUMDB=off GOTOOLCHAIN=local CGO_ENABLED=0
VERIF_DIR="$(cd "$(dirname "${BASH_SOURCE[0]}")" && pwd)"
REPO="${VERIF_REPO:-/repo}"
REPO="$(cd "$REPO" && pwd)"
KEY="$(echo -n "$REPO" | md5sum | cut -c1-10)"
BUILD="$VERIF_DIR/build/$KEY"
BIN="$VERIF_DIR/build/bin"
RT="$VERIF_DIR/build/runtime"
mkdir -p "$BUILD" "$BIN" "$RT"

build_tools() {
  ( cd "$VERIF_DIR/tools" && go build -o "$BIN/svcgen" ./svcgen && go build -o "$BIN/globalsgen" ./globalsgen && go build -o "$BIN/instr" ./instr )
  python3 "$VERIF_DIR/tools/patch_runtime.py" "$RT"
}

build_harness() {
  [ -x "$BIN/svcgen" ] && [ -x "$BIN/globalsgen" ] && [ -f "$RT/frag.json" ] || build_tools
  "$BIN/svcgen" "$REPO/httpClient/main.go" "$BUILD/svc_gen.go"
  rm -rf "$BUILD/globals"; "$BIN/globalsgen" "$REPO/lib" "$BUILD/globals" "$VERIF_DIR/harness/svc/zz_globals_all.go" "$BUILD/globals/frag.json"
  cat > "$BUILD/go.mod" <<MOD
module rdmverif

go 1.21

require (
	github.com/Azbesciak/RealDecisionMaker/lib v0.0.0-20200913101259-ca28aad3eea7
	github.com/alecthomas/jsonschema v0.0.0-20200217214135-7152f22193c9
	github.com/gin-contrib/cors v1.3.0
	github.com/gin-gonic/contrib v0.0.0-20190923054218-35076c1b2bea
	github.com/gin-gonic/gin v1.4.0
	github.com/go-errors/errors v1.0.1
	github.com/google/go-cmp v0.4.0
	github.com/mitchellh/mapstructure v1.1.2
)

replace github.com/Azbesciak/RealDecisionMaker/lib => $REPO/lib
MOD
  cat "$REPO/httpClient/go.sum" "$REPO/lib/go.sum" | sort -u > "$BUILD/go.sum"
  python3 - "$BUILD" "$RT" "$VERIF_DIR" "$REPO" <<'PY'
import json,sys,os
b,rt,vd=sys.argv[1:4]
ov={}
ov.update(json.load(open(os.path.join(rt,"frag.json"))))
ov.update(json.load(open(os.path.join(b,"globals","frag.json"))))
ov[os.path.join(vd,"harness","svc","zz_svc_gen.go")]=os.path.join(b,"svc_gen.go")
repo=sys.argv[4]
ov[os.path.join(repo,"lib","verifsched","sched.go")]=os.path.join(vd,"tools","verifsched","sched.go")
ov[os.path.join(repo,"lib","verifsched","vsync","vsync.go")]=os.path.join(vd,"tools","verifsched","vsync","vsync.go")
json.dump({"Replace":ov},open(os.path.join(b,"overlay.json"),"w"),indent=1)
# overlay without the runtime patch (for the free-running -race binary)
plain={k:v for k,v in ov.items() if "/src/runtime/" not in k}
json.dump({"Replace":plain},open(os.path.join(b,"overlay_plain.json"),"w"),indent=1)
PY
  ( cd "$VERIF_DIR/harness" && go build -modfile="$BUILD/go.mod" -overlay "$BUILD/overlay.json" -tags verif -o "$BUILD/rdmcheck" ./cmd/rdmcheck )
}

# build_sched: the schedule-explorer binary (every statement of lib/** and of the service file preceded by a yield
# point) and the free-running race-detector binary, both from the same harness sources.
build_sched() {
  rm -rf "$BUILD/instr"; mkdir -p "$BUILD/instr"
  "$BIN/instr" "$BUILD/instr" "$BUILD/instr/frag.json" "$BUILD/svc_gen.go" $(find "$REPO/lib" -name '*.go' -not -name '*_test.go' -not -path '*/testUtils/*' -not -name 'zz_verif_*' | sort) > "$BUILD/instr/summary.txt"
  python3 - "$BUILD" "$VERIF_DIR" <<'PY'
import json,sys,os
b,vd=sys.argv[1:3]
ov=json.load(open(os.path.join(b,"overlay.json")))["Replace"]
fr=json.load(open(os.path.join(b,"instr","frag.json")))
gen=os.path.join(b,"svc_gen.go")
for k,v in fr.items():
    if k==gen:
        ov[os.path.join(vd,"harness","svc","zz_svc_gen.go")]=v
    else:
        ov[k]=v
json.dump({"Replace":ov},open(os.path.join(b,"overlay_sched.json"),"w"),indent=1)
PY
  ( cd "$VERIF_DIR/harness" && go build -modfile="$BUILD/go.mod" -overlay "$BUILD/overlay_sched.json" -tags verif -o "$BUILD/rdmsched" ./cmd/rdmcheck )
  ( cd "$VERIF_DIR/harness" && CGO_ENABLED=1 go build -race -modfile="$BUILD/go.mod" -overlay "$BUILD/overlay_plain.json" -o "$BUILD/rdmrace" ./cmd/rdmcheck )
}

# build_server: the service binary exactly as shipped (httpClient/main.go, package main), with lib replaced by the
# working tree; nothing is written into $REPO (alternate go.mod / go.sum under $BUILD).
build_server() {
  cp "$REPO/httpClient/go.mod" "$BUILD/server.mod"
  echo "replace github.com/Azbesciak/RealDecisionMaker/lib => $REPO/lib" >> "$BUILD/server.mod"
  cat "$REPO/httpClient/go.sum" "$REPO/lib/go.sum" | sort -u > "$BUILD/server.sum"
  ( cd "$REPO/httpClient" && go build -modfile="$BUILD/server.mod" -o "$BUILD/rdmserver" . )
}
