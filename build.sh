#!/bin/bash
# build.sh — (re)build the harness binaries for the repository tree at $VERIF_REPO (default /repo).
# Sourced by check.sh / setup.sh. Everything generated lives under /verif/build; /repo is never written.
set -euo pipefail
export GOFLAGS=-mod=mod GOPROXY=off GOSUMDB=off GOTOOLCHAIN=local CGO_ENABLED=0
VERIF_DIR="$(cd "$(dirname "${BASH_SOURCE[0]}")" && pwd)"
REPO="${VERIF_REPO:-/repo}"
REPO="$(cd "$REPO" && pwd)"
KEY="$(echo -n "$REPO" | md5sum | cut -c1-10)"
BUILD="$VERIF_DIR/build/$KEY"
BIN="$VERIF_DIR/build/bin"
RT="$VERIF_DIR/build/runtime"
mkdir -p "$BUILD" "$BIN" "$RT"

build_tools() {
  ( cd "$VERIF_DIR/tools" && go build -o "$BIN/svcgen" ./svcgen && go build -o "$BIN/globalsgen" ./globalsgen && go build -o "$BIN/instr" ./instr )
  python3 "$VERIF_DIR/tools/patch_runtime.py" "$RT"
}

build_harness() {
  [ -x "$BIN/svcgen" ] && [ -x "$BIN/globalsgen" ] && [ -f "$RT/frag.json" ] || build_tools
  "$BIN/svcgen" "$REPO/httpClient/main.go" "$BUILD/svc_gen.go"
  rm -rf "$BUILD/globals"; "$BIN/globalsgen" "$REPO/lib" "$BUILD/globals" "$VERIF_DIR/harness/svc/zz_globals_all.go" "$BUILD/globals/frag.json"
  cat > "$BUILD/go.mod" <<MOD
module rdmverif

go 1.21

require (
	github.com/Azbesciak/RealDecisionMaker/lib v0.0.0-20200913101259-ca28aad3eea7
	github.com/alecthomas/jsonschema v0.0.0-20200217214135-7152f22193c9
	github.com/gin-contrib/cors v1.3.0
	github.com/gin-gonic/contrib v0.0.0-20190923054218-35076c1b2bea
	github.com/gin-gonic/gin v1.4.0
	github.com/go-errors/errors v1.0.1
	github.com/google/go-cmp v0.4.0
	github.com/mitchellh/mapstructure v1.1.2
)

replace github.com/Azbesciak/RealDecisionMaker/lib => $REPO/lib
MOD
  cat "$REPO/httpClient/go.sum" "$REPO/lib/go.sum" | sort -u > "$BUILD/go.sum"
  python3 - "$BUILD" "$RT" "$VERIF_DIR" <<'PY'
import json,sys,os
b,rt,vd=sys.argv[1:4]
ov={}
ov.update(json.load(open(os.path.join(rt,"frag.json"))))
ov.update(json.load(open(os.path.join(b,"globals","frag.json"))))
ov[os.path.join(vd,"harness","svc","zz_svc_gen.go")]=os.path.join(b,"svc_gen.go")
json.dump({"Replace":ov},open(os.path.join(b,"overlay.json"),"w"),indent=1)
PY
  ( cd "$VERIF_DIR/harness" && go build -modfile="$BUILD/go.mod" -overlay "$BUILD/overlay.json" -tags verif -o "$BUILD/rdmcheck" ./cmd/rdmcheck )
}
