module rdmverif

go 1.21
