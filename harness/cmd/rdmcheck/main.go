package main

import (
	"fmt"
	"os"
	"strconv"

	"rdmverif/engine"
	"rdmverif/props"
)

func main() {
	if len(os.Args) < 2 {
		fmt.Fprintln(os.Stderr, "usage: rdmcheck run <ID> <tier> <verifdir> | shard <ID> <tier> <i> <n> <dir> | replay <file>")
		os.Exit(2)
	}
	switch os.Args[1] {
	case "run":
		n := 16
		if v := os.Getenv("VERIF_SHARDS"); v != "" {
			n, _ = strconv.Atoi(v)
		}
		os.Exit(engine.Supervise(os.Args[0], os.Args[2], os.Args[3], os.Args[4], n))
	case "shard":
		i, _ := strconv.Atoi(os.Args[4])
		n, _ := strconv.Atoi(os.Args[5])
		engine.RunShard(os.Args[2], os.Args[3], i, n, os.Args[6])
	case "cold":
		os.Exit(props.ColdMain(os.Args[2]))
	case "fresh":
		os.Exit(props.FreshMain(os.Args[2]))
	case "race":
		os.Exit(props.RaceMain(os.Args[2]))
	case "replay":
		os.Exit(engine.Replay(os.Args[2]))
	default:
		fmt.Fprintln(os.Stderr, "unknown command")
		os.Exit(2)
	}
}
