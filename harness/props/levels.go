package props

import (
	"fmt"
	"math"

	. "rdmverif/engine"
)

// Aspiration-level series: reference model of DESIGN.md A.7 and request encoding.

type levelSpec struct {
	Fn       string // thresholds | idealMultipliedCoefficient | idealAdditiveCoefficient | idealSubtractiveCoefficient
	Coef     float64
	Min, Max float64
	Explicit []map[string]float64 // for Fn == thresholds
	OmitMin  bool                 // leave "minValue" out of the request when it is 0 (the documented default)
}

func (l levelSpec) params() M {
	if l.Fn == "thresholds" {
		var ts L
		for _, t := range l.Explicit {
			m := M{}
			for k, v := range t {
				m[k] = v
			}
			ts = append(ts, m)
		}
		if ts == nil {
			ts = L{}
		}
		return M{"thresholds": ts}
	}
	if l.OmitMin && l.Min == 0 {
		return M{"coefficient": l.Coef, "maxValue": l.Max}
	}
	return M{"coefficient": l.Coef, "minValue": l.Min, "maxValue": l.Max}
}

func (l levelSpec) String() string {
	if l.Fn == "thresholds" {
		return fmt.Sprintf("thresholds%v", l.Explicit)
	}
	return fmt.Sprintf("%s(coef=%v,min=%v,max=%v)", l.Fn, l.Coef, l.Min, l.Max)
}

const seriesCap = 1000000

// refRatios returns the series of ratios r for a generated series, whether the parameters are valid, and whether
// the series ended below the cap. increasing = aspect elimination family.
func refRatios(increasing bool, fn string, coef, min, max float64) (rs []float64, valid bool, ended bool) {
	if !(coef > 0 && coef < 1) {
		return nil, false, true
	}
	if increasing {
		if min < 0 || min > 1 || max < 0 || max > 1 {
			return nil, false, true
		}
		r := min
		for r < max {
			if len(rs) >= seriesCap {
				return rs, true, false
			}
			rs = append(rs, r)
			if fn == "idealMultipliedCoefficient" {
				r = math.Min((1+r)*(1+coef)-1, 1)
			} else {
				r = math.Min(r+coef, 1)
			}
		}
		return rs, true, true
	}
	if min <= 0 || min > 1 || max <= 0 || max > 1 {
		return nil, false, true
	}
	r := max
	for r > min {
		if len(rs) >= seriesCap {
			return rs, true, false
		}
		rs = append(rs, r)
		if fn == "idealMultipliedCoefficient" {
			r = r * coef
		} else {
			r = math.Max(r-coef, 0)
		}
	}
	return rs, true, true
}

type critInfo struct {
	ID     string
	Cost   bool
	Lo, Hi float64 // range: declared, else observed over all known alternatives
}

func placeThreshold(ci critInfo, r float64) float64 {
	if ci.Cost {
		return ci.Hi - (ci.Hi-ci.Lo)*r
	}
	return ci.Lo + (ci.Hi-ci.Lo)*r
}

// refLevels expands a spec into the list of per-criterion threshold maps.
func refLevels(increasing bool, l levelSpec, crits []critInfo) (levels []map[string]float64, valid bool) {
	if l.Fn == "thresholds" {
		for _, t := range l.Explicit {
			for _, c := range crits {
				if _, ok := t[c.ID]; !ok {
					return nil, false
				}
			}
		}
		return l.Explicit, true
	}
	rs, ok, _ := refRatios(increasing, l.Fn, l.Coef, l.Min, l.Max)
	if !ok {
		return nil, false
	}
	for _, r := range rs {
		m := map[string]float64{}
		for _, c := range crits {
			m[c.ID] = placeThreshold(c, r)
		}
		levels = append(levels, m)
	}
	return levels, true
}

// critInfos extracts criteria with ranges from a round-tripped request (range observed over ALL known alternatives
// when not declared).
func critInfos(req M) []critInfo {
	var out []critInfo
	for _, c := range asL(req["criteria"]) {
		cm := asM(c)
		ci := critInfo{ID: asS(cm["id"]), Cost: asS(cm["type"]) == "cost"}
		if vr := asM(cm["valuesRange"]); vr != nil {
			ci.Lo, ci.Hi = asF(vr["min"]), asF(vr["max"])
		} else {
			first := true
			for _, a := range asL(req["knownAlternatives"]) {
				v := asF(asM(asM(a)["criteria"])[ci.ID])
				if first || v < ci.Lo {
					ci.Lo = v
				}
				if first || v > ci.Hi {
					ci.Hi = v
				}
				first = false
			}
		}
		out = append(out, ci)
	}
	return out
}

func specFromReq(req M) levelSpec {
	mp := asM(req["methodParameters"])
	p := asM(mp["params"])
	l := levelSpec{Fn: asS(mp["function"])}
	if l.Fn == "thresholds" {
		for _, t := range asL(p["thresholds"]) {
			m := map[string]float64{}
			for k, v := range asM(t) {
				m[k] = asF(v)
			}
			l.Explicit = append(l.Explicit, m)
		}
		return l
	}
	l.Coef, l.Min, l.Max = asF(p["coefficient"]), asF(p["minValue"]), asF(p["maxValue"])
	return l
}

func approx(a, b float64) bool {
	return math.Abs(a-b) <= 1e-9*(1+math.Abs(a)+math.Abs(b))
}

// exactLevels: the request lists its thresholds explicitly, so a reported threshold is one of the request's own numbers,
// digit for digit (set by the oracles from the request's level function).
var exactLevels bool

func levelEq(a, b float64) bool {
	if exactLevels {
		return a == b
	}
	return approx(a, b)
}

func sameThresholds(got map[string]interface{}, want map[string]float64) bool {
	if len(got) != len(want) {
		return false
	}
	for k, v := range want {
		g, ok := got[k].(float64)
		if !ok || !levelEq(g, v) {
			return false
		}
	}
	return true
}
