package props

import (
	"fmt"

	. "rdmverif/engine"
)

// C13 — satisfaction heuristic ranks by the first level an alternative satisfies (DESIGN.md 6.C13, A.6).

func init() {
	Register(&Property{
		ID: "C13", Level: "exploration",
		Rule: "E1: considered sets n<=4 (thorough 5) x criteria m=2 (m=3 for n<=3) x values {0,1,2} full product x gain/cost x " +
			"level specs {explicit decreasing lists of 1-3 levels over {2.5,1.5,0.5} per criterion, one non-monotone list; generated multiplied/subtractive series over coef {0.25,0.5} x (min,max) in {(0.25,1),(0.25,0.75),(0.5,1)}} " +
			"x currentChoice {none, first considered, last considered, known-not-considered} x valuesRange {declared, observed} x order {fixed; random under 3 constant scripts}. " +
			"Oracle: reference acceptance walk; exact for fixed order, existential over permutations (current choice first) in random mode. " +
			"distinct_nontrivial = distinct responses with at least two different reported level indices.",
		Assume: []string{"order of alternatives accepted at the same level follows the search order (statement: 'this order of acceptance')"},
		Run:    c13Run,
		Check:  c13Check,
	})
}

type satCfg struct {
	N       int
	Vals    [][]float64
	Types   []string
	Spec    levelSpec
	Current string
	Random  bool
	Ranges  bool
	Mixed   bool // only the LAST criterion declares its valuesRange [-1,3]
	ZVal    float64
	Reverse bool
}

func satRequest(cfg satCfg) M {
	m := len(cfg.Types)
	cids := critIDs(m)
	var crits L
	for j, id := range cids {
		if cfg.Mixed && j < len(cids)-1 {
			crits = append(crits, crit(id, cfg.Types[j]))
		} else if cfg.Ranges || cfg.Mixed {
			crits = append(crits, critR(id, cfg.Types[j], -1, 3))
		} else {
			crits = append(crits, crit(id, cfg.Types[j]))
		}
	}
	var ka L
	var chose []string
	for i := 0; i < cfg.N; i++ {
		cv := map[string]float64{}
		for j, id := range cids {
			cv[id] = cfg.Vals[i][j]
		}
		ka = append(ka, alt(ids6[i], cv))
		chose = append(chose, ids6[i])
	}
	if cfg.Reverse {
		for i, j := 0, len(chose)-1; i < j; i, j = i+1, j-1 {
			chose[i], chose[j] = chose[j], chose[i]
			ka[i], ka[j] = ka[j], ka[i]
		}
	}
	zv := map[string]float64{}
	for _, id := range cids {
		zv[id] = cfg.ZVal
	}
	ka = append(ka, alt("zz", zv))
	mp := M{"function": cfg.Spec.Fn, "params": cfg.Spec.params(), "randomSeed": 9}
	if cfg.Current != "" {
		mp["currentChoice"] = cfg.Current
	}
	if cfg.Random {
		mp["randomAlternativesOrdering"] = true
	}
	return M{"preferenceFunction": "satisfactionHeuristic", "knownAlternatives": ka, "choseToMake": strs(chose), "criteria": crits, "methodParameters": mp}
}

type satAcc struct {
	ID    string
	Level int
}

func satWalk(order []string, vals map[string]map[string]float64, crits []critInfo, levels []map[string]float64) (acc []satAcc, left []string) {
	remaining := append([]string{}, order...)
	for li, t := range levels {
		var next []string
		for _, a := range remaining {
			good := true
			for _, c := range crits {
				sg := 1.0
				if c.Cost {
					sg = -1
				}
				if sg*vals[a][c.ID] < sg*t[c.ID] {
					good = false
				}
			}
			if good {
				acc = append(acc, satAcc{a, li})
			} else {
				next = append(next, a)
			}
		}
		remaining = next
		if len(remaining) == 0 {
			break
		}
	}
	return acc, remaining
}

func satMatches(resp *Response, acc []satAcc, left []string, levels []map[string]float64, worst map[string]float64) (bool, string) {
	if len(resp.Result) != len(acc)+len(left) {
		return false, "length"
	}
	for i, a := range acc {
		e := resp.Result[i]
		if e.Alternative.ID != a.ID || int(asF(e.Evaluation["thresholdsIndex"])) != a.Level {
			return false, "acceptance-order"
		}
		if !sameThresholds(asM(e.Evaluation["satisfiedThresholds"]), levels[a.Level]) {
			return false, "accepted-thresholds"
		}
	}
	for i, id := range left {
		e := resp.Result[len(acc)+i]
		if e.Alternative.ID != id || int(asF(e.Evaluation["thresholdsIndex"])) != len(levels) {
			return false, "leftover-order-or-index"
		}
		if !sameThresholds(asM(e.Evaluation["satisfiedThresholds"]), worst) {
			return false, "leftover-worst-values"
		}
	}
	return true, ""
}

func c13Check(c *Case) []Violation {
	if c.Kind == "seeded-order" {
		return seededOrderRepeatable(c, "C13")
	}
	req := asM(roundTrip(c.Req))
	out := Decide(J(c.Req), scriptFromCase(c))
	if !out.Accepted {
		return []Violation{viol(c, "C13/rejected", "valid satisfaction request rejected: %s", out.Err)}
	}
	resp, err := ParseResponse(out.Body)
	if err != nil {
		return []Violation{viol(c, "C13/unparsable", "%v", err)}
	}
	return satOracle(c, req, resp)
}

func satOracle(c *Case, req M, resp *Response) []Violation {
	var vs []Violation
	crits := critInfos(req)
	mp := asM(req["methodParameters"])
	spec := specFromReq(req)
	exactLevels = spec.Fn == "thresholds"
	levels, ok := refLevels(false, spec, crits)
	if !ok {
		return []Violation{viol(c, "C13/accepted-invalid-levels", "request with invalid level parameters %v was answered", spec)}
	}
	vals := map[string]map[string]float64{}
	for _, e := range resp.Result {
		vals[e.Alternative.ID] = e.Alternative.Criteria
	}
	worst := map[string]float64{}
	for _, ci := range crits {
		if ci.Cost {
			worst[ci.ID] = ci.Hi
		} else {
			worst[ci.ID] = ci.Lo
		}
	}
	// T1: stated per-entry facts
	idxSeen := map[int]bool{}
	for _, e := range resp.Result {
		idx := int(asF(e.Evaluation["thresholdsIndex"]))
		idxSeen[idx] = true
		th := asM(e.Evaluation["satisfiedThresholds"])
		id := e.Alternative.ID
		satisfies := func(t map[string]float64) bool {
			for _, ci := range crits {
				sg := 1.0
				if ci.Cost {
					sg = -1
				}
				if sg*vals[id][ci.ID] < sg*t[ci.ID] {
					return false
				}
			}
			return true
		}
		if idx < len(levels) && idx >= 0 {
			if !sameThresholds(th, levels[idx]) {
				vs = append(vs, viol(c, "C13/threshold-value", "entry %s reports thresholds %v at level %d, the level is %v", id, th, idx, levels[idx]))
			} else if !satisfies(levels[idx]) {
				vs = append(vs, viol(c, "C13/not-actually-satisfied", "entry %s (values %v) does not satisfy the level %d thresholds %v it reports", id, vals[id], idx, levels[idx]))
			}
			for li := 0; li < idx; li++ {
				if satisfies(levels[li]) {
					vs = append(vs, viol(c, "C13/satisfied-earlier-level", "entry %s reports level %d but already satisfies level %d", id, idx, li))
				}
			}
		} else if idx == len(levels) {
			for li := range levels {
				if satisfies(levels[li]) {
					vs = append(vs, viol(c, "C13/leftover-satisfies-level", "entry %s is reported as meeting no level but satisfies level %d", id, li))
				}
			}
			if !sameThresholds(th, worst) {
				vs = append(vs, viol(c, "C13/leftover-worst-values", "entry %s met no level and reports %v; the worst value of each criterion's range is %v", id, th, worst))
			}
		} else {
			vs = append(vs, viol(c, "C13/index-range", "entry %s reports level index %d with %d levels", id, idx, len(levels)))
		}
	}
	if cur != nil {
		cur.Outcome(len(idxSeen) >= 2, resp.Result)
	}
	// T2
	random, _ := mp["randomAlternativesOrdering"].(bool)
	current := asS(mp["currentChoice"])
	chose := toStrings(req["choseToMake"])
	rest := append([]string{}, chose...)
	if current != "" {
		for i, x := range rest {
			if x == current {
				rest = append(rest[:i:i], rest[i+1:]...)
				break
			}
		}
	}
	mk := func(r []string) []string {
		if current != "" {
			return append([]string{current}, r...)
		}
		return r
	}
	match, why := false, ""
	if !random {
		acc, left := satWalk(mk(rest), vals, crits, levels)
		match, why = satMatches(resp, acc, left, levels, worst)
	} else {
		Permutations(len(rest), func(p []int) {
			if match {
				return
			}
			acc, left := satWalk(mk(permute(rest, p)), vals, crits, levels)
			match, why = satMatches(resp, acc, left, levels, worst)
		})
	}
	if !match {
		var got []string
		for _, e := range resp.Result {
			got = append(got, fmt.Sprintf("%s(%v|%v)", e.Alternative.ID, e.Evaluation["thresholdsIndex"], e.Evaluation["satisfiedThresholds"]))
		}
		sig := "C13/walk/" + why
		if random {
			sig = "C13/walk-random-order"
		}
		vs = append(vs, viol(c, sig, "response %v is not the acceptance order of the reference walk (levels %v, worst %v, current %q)", got, levels, worst, current))
	}
	return vs
}

func decLists(cids []string) []levelSpec {
	grid := []float64{2.5, 1.5, 0.5}
	var seqs [][]float64
	for m := 1; m < 8; m++ {
		var s []float64
		for i, g := range grid {
			if m&(1<<uint(i)) != 0 {
				s = append(s, g)
			}
		}
		seqs = append(seqs, s)
	}
	seqs = append(seqs, []float64{2.5, 1.5, 1.5, 0.5}, []float64{1.5, 1.5})  // a level repeated: still a level of its own
	seqs = append(seqs, []float64{2.4999999949, 1.5000000051, 0.5000000049}) // more decimals than any rounding keeps
	var out []levelSpec
	for _, a := range seqs {
		for _, b := range seqs {
			if len(a) != len(b) {
				continue
			}
			var ex []map[string]float64
			for i := range a {
				m := map[string]float64{}
				for j, id := range cids {
					if j%2 == 0 {
						m[id] = a[i]
					} else {
						m[id] = b[i]
					}
				}
				ex = append(ex, m)
			}
			out = append(out, levelSpec{Fn: "thresholds", Explicit: ex})
		}
	}
	// lists with a plateau (two consecutive identical levels)
	for _, seq := range [][]float64{{2.5, 1.5, 1.5, 0.5}, {1.5, 1.5}} {
		var ex []map[string]float64
		for _, v := range seq {
			m := map[string]float64{}
			for _, id := range cids {
				m[id] = v
			}
			ex = append(ex, m)
		}
		out = append(out, levelSpec{Fn: "thresholds", Explicit: ex})
	}
	// one non-monotone list and the empty list
	nm := []map[string]float64{{}, {}}
	for _, id := range cids {
		nm[0][id] = 0.5
		nm[1][id] = 1.5
	}
	out = append(out, levelSpec{Fn: "thresholds", Explicit: nm}, levelSpec{Fn: "thresholds", Explicit: nil})
	return out
}

func satEnumerate(s *Shard, prop string, fn func(c *Case)) {
	type grid struct {
		n, m     int
		levels   []float64
		specStep int
	}
	l3, l2 := []float64{0, 1, 2}, []float64{0, 2}
	grids := []grid{{1, 2, l3, 1}, {2, 2, l3, 1}, {3, 2, l3, 1}, {4, 2, l2, 1}, {2, 3, l2, 1}}
	if !quick(s) {
		grids = []grid{{1, 2, l3, 1}, {2, 2, l3, 1}, {3, 2, l3, 1}, {4, 2, l3, 1}, {2, 3, l3, 1}, {3, 3, l3, 2}, {5, 2, l2, 1}}
	}
	for _, g := range grids {
		cids := critIDs(g.m)
		specs := append(decLists(cids), genSpecs(false)...)
		typeSets := [][]string{{"gain", ""}, {"gain", "cost"}}
		if g.n <= 2 {
			typeSets = append(typeSets, []string{"cost", "gain"}) // a gain criterion listed after a cost criterion
		}
		if g.m == 3 {
			typeSets = [][]string{{"gain", "gain", "gain"}, {"cost", "gain", "cost"}}
		}
		currents := []string{"", ids6[0], ids6[g.n-1], "zz"}
		if g.n == 1 {
			currents = []string{"", ids6[0], "zz"}
		}
		dims := make([]int, g.n*g.m)
		for i := range dims {
			dims[i] = len(g.levels)
		}
		Product(dims, func(idx []int) {
			if !s.Take() {
				return
			}
			vals := make([][]float64, g.n)
			for i := range vals {
				vals[i] = make([]float64, g.m)
				for j := range vals[i] {
					vals[i][j] = g.levels[idx[i*g.m+j]]
				}
			}
			for _, types := range typeSets {
				for si, spec := range specs {
					if si%g.specStep != 0 || (liteEnum && si%3 != 0) {
						continue
					}
					for ci, cc := range currents {
						cfg := satCfg{N: g.n, Vals: vals, Types: types, Spec: spec, Current: cc, Ranges: (si+ci)%2 == 0, ZVal: 1}
						if spec.Fn != "thresholds" && (si+ci)%4 == 1 {
							// first criterion strictly negative for every known alternative, range observed
							nv := make([][]float64, len(vals))
							for i := range vals {
								nv[i] = append([]float64{vals[i][0] - 3}, vals[i][1:]...)
							}
							cfg.Vals, cfg.Ranges, cfg.ZVal = nv, false, -1.5
						}
						fn(&Case{Prop: prop, Kind: "satisfaction", Req: satRequest(cfg)})
						if spec.Fn != "thresholds" && g.n <= 3 && (si+ci)%3 == 1 {
							mc := cfg
							mc.Mixed, mc.Ranges = true, false
							fn(&Case{Prop: prop, Kind: "satisfaction", Req: satRequest(mc)})
						}
						if spec.Fn != "thresholds" && !cfg.Ranges && g.n <= 3 && cc != "zz" {
							// the never-considered alternative that widens the observed range has an id that sorts FIRST
							fn(&Case{Prop: prop, Kind: "satisfaction", Req: renameIDs(satRequest(cfg), map[string]string{"zz": "0a"})})
						}
						if g.n == 3 && (si+ci)%2 == 1 {
							rc := cfg
							rc.Reverse = true
							fn(&Case{Prop: prop, Kind: "satisfaction", Req: satRequest(rc)})
							fn(&Case{Prop: prop, Kind: "satisfaction", Req: reverseChose(satRequest(cfg))}) // choseToMake against the catalogue order
						}
						if g.n == 3 && si%3 == 0 {
							// the same with untidy ids (leading / trailing whitespace, upper case, a whitespace-only id)
							fn(&Case{Prop: prop, Kind: "satisfaction", Req: renameIDs(satRequest(cfg), untidyIDs)})
						}
						if g.n >= 2 && g.n <= 3 && g.m == 2 && si%5 == 0 {
							for _, k := range []float64{0, 0.5, 1 - 1.0/(1<<53)} {
								cfg.Random = true
								fn(&Case{Prop: prop, Kind: "satisfaction", Req: satRequest(cfg), Script: []float64{}, Params: M{"script_default": k}})
							}
						}
					}
				}
			}
		})
	}
}

func satLong(s *Shard, prop string, fn func(c *Case)) {
	lv := []float64{0.5, 1, 2.9}
	for _, spec := range longSeries(false) {
		for _, typ := range []string{"gain", "cost"} {
			Product([]int{3, 3, 3}, func(idx []int) {
				if !s.Take() {
					return
				}
				vals := [][]float64{{lv[idx[0]], 3}, {lv[idx[1]], 3}, {lv[idx[2]], 3}} // the second criterion never decides (everybody at its best value)
				cfg := satCfg{N: 3, Vals: vals, Types: []string{typ, "gain"}, Spec: spec, ZVal: 3}
				fn(&Case{Prop: prop, Kind: "satisfaction", Req: satRequest(cfg)})
			})
		}
	}
}

func c13Run(s *Shard) {
	cur = s
	n := 0
	seededOrderCases(s, "C13", "satisfactionHeuristic", func(c *Case) {
		s.Evals += 4
		s.Begin(c)
		s.Report(c13Check(c))
	})
	// 13 and more alternatives, many of them accepted at the same level or never
	for _, n := range manySizes {
		for pat := 0; pat < 4; pat++ {
			for _, cc := range []string{"", "n00", "zz"} {
				for _, ths := range []L{{M{"c1": 1.5, "c2": 0.5}, M{"c1": 0.5, "c2": 1.5}}, {M{"c1": 2.5, "c2": 0.5}, M{"c1": 1.5, "c2": 1.5}, M{"c1": 0.5, "c2": 1.5}}, {M{"c1": 1.5, "c2": 1.5}}} {
					if !s.Take() {
						continue
					}
					mp := M{"function": "thresholds", "params": M{"thresholds": ths}, "randomSeed": 9}
					if cc != "" {
						mp["currentChoice"] = cc
					}
					c := &Case{Prop: "C13", Kind: "satisfaction", Req: manyAlternatives("satisfactionHeuristic", n, pat, mp)}
					s.Evals++
					s.Begin(c)
					s.Report(c13Check(c))
				}
			}
		}
	}
	// nobody is considered but a known current choice is given: the search order is that one alternative
	for _, cc := range []string{"a", "b", "c"} {
		for _, ths := range []L{{M{"c1": 9.0, "c2": 9.0, "c3": 9.0}, M{"c1": 0.5, "c2": 9.0, "c3": 0.5}}, {M{"c1": 9.0, "c2": 0.0, "c3": 9.0}}} {
			if !s.Take() {
				continue
			}
			r := rootRequest("satisfactionHeuristic", false, false)
			r["choseToMake"] = L{}
			r = withMP(r, M{"function": "thresholds", "params": M{"thresholds": ths}, "currentChoice": cc})
			c := &Case{Prop: "C13", Kind: "satisfaction", Req: r}
			s.Evals++
			s.Begin(c)
			s.Report(c13Check(c))
		}
	}
	// ids that are related: an alternative id followed by a separator and the head of a criterion id spells another
	// alternative id (a + sep + x|y  ==  a|x + sep + y); the two alternatives differ on exactly those criteria
	for _, sep := range []string{"_", "", "-", ":", "."} {
		for _, order := range [][]int{{0, 1, 2}, {1, 0, 2}, {2, 1, 0}} {
			if !s.Take() {
				continue
			}
			alts := []string{"a", "a" + sep + "x", "b"}
			vals := [][]float64{{5, 5}, {5, 0}, {0, 5}}
			cids := []string{"x" + sep + "y", "y"}
			var la []string
			var lv [][]float64
			for _, o := range order {
				la, lv = append(la, alts[o]), append(lv, vals[o])
			}
			r := genericRequest("satisfactionHeuristic", cids, -1, la, lv, la, []float64{1, 1})
			r = withMP(r, M{"function": "thresholds", "params": M{"thresholds": L{M{cids[0]: 2.0, cids[1]: 2.0}, M{cids[0]: 1.0, cids[1]: -1.0}}}})
			c := &Case{Prop: "C13", Kind: "satisfaction", Req: r}
			s.Evals++
			s.Begin(c)
			s.Report(c13Check(c))
		}
	}
	satLong(s, "C13", func(c *Case) {
		s.Evals++
		s.Begin(c)
		s.Report(c13Check(c))
	})
	satEnumerate(s, "C13", func(c *Case) {
		s.Evals++
		s.Begin(c)
		s.Report(c13Check(c))
		if n < 1 && s.Evals%7000 == 99 {
			s.Sample(M{"request": c.Req})
			n++
		}
	})
}
