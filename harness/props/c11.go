package props

import (
	"fmt"

	. "rdmverif/engine"
	"rdmverif/svc"
)

// C11 — majority heuristic is a sequential pairwise tournament (DESIGN.md 6.C11, A.4).

func init() {
	Register(&Property{
		ID: "C11", Level: "exploration",
		Rule: "E1: alternatives n<=4 with values {0,1,2}^2 (full product), n=5 with {0,1}^2 (thorough: n=5 {0,1,2}, n=6 {0,1}), the 1e-6 tie neighbourhood {1,1+5e-7,1+2e-6} and large magnitudes {2e9,2e9+300,2e9+700} for n=3, choseToMake also listed in descending id order (n=3,4), " +
			"3 criteria {0,1}^3 for n<=3; x gain/cost/type-omitted x weights {(1,1),(2,1)} / {(1,2,3),(1,1,2),(0.1,0.2,0.3)} x 4 draw policies (+default) x currentChoice {none, first considered, last considered, known-not-considered} " +
			"x order {fixed; random with scripted generator answers: 5 constant scripts + every single deviation (thorough: two) from the all-zero script over menu {0,.25,.5,.75,1-ulp}}. " +
			"Oracle: stated per-entry invariants + equality with a reference tournament (existential over search orders / coin sequences where the statement leaves them open). " +
			"distinct_nontrivial = distinct responses with >=2 drop-out groups.",
		Assume: []string{"the shuffle algorithm and the coin of the 'random' policy are not fixed by the statement: any permutation after the current choice and any coin sequence is accepted"},
		Run:    c11Run,
		Check:  c11Check,
	})
}

func scriptFromCase(c *Case) *svc.Script {
	if c.Script == nil {
		return nil
	}
	def := 0.0
	if v, ok := c.Params["script_default"]; ok {
		def = asF(v)
	}
	return SeqScript(c.Script, def)
}

func c11Check(c *Case) []Violation {
	if c.Kind == "seeded-order" {
		return seededOrderRepeatable(c, "C11")
	}
	req := asM(roundTrip(c.Req))
	out := Decide(J(c.Req), scriptFromCase(c))
	if !out.Accepted {
		return []Violation{viol(c, "C11/rejected", "valid majority request rejected: %s", out.Err)}
	}
	resp, err := ParseResponse(out.Body)
	if err != nil {
		return []Violation{viol(c, "C11/unparsable", "%v", err)}
	}
	groups := 0
	for _, e := range resp.Result {
		if asS(e.Evaluation["comparedWith"]) != "" {
			groups++
		}
	}
	if cur != nil {
		cur.Outcome(groups >= 1, out.Body)
	}
	if len(asL(req["biases"])) > 0 {
		// after a criteria omission the tournament runs on the kept criteria, with every option of the request in force
		req = asM(roundTrip(reducedByOmissions(M(req), resp)))
	}
	return majOracle(c, req, resp)
}

var majPolicies = []string{"", "allow", "current", "newer", "random"}

// majEnumerate calls fn for every majority case of the tier. withScripts: include random-order scripted cases.
func majEnumerate(s *Shard, prop string, fn func(c *Case)) {
	type grid struct {
		n      int
		levels []float64
		m      int
	}
	grids := []grid{{1, []float64{0, 1, 2}, 2}, {2, []float64{0, 1, 2}, 2}, {3, []float64{0, 1, 2}, 2}, {4, []float64{0, 1, 2}, 2}, {5, []float64{0, 1}, 2},
		{3, []float64{1, 1 + 5e-7, 1 + 2e-6}, 2}, {2, []float64{0, 1}, 3}, {3, []float64{0, 1}, 3}, {3, []float64{2e9, 2e9 + 300, 2e9 + 700}, 2}}
	if !quick(s) {
		grids = append(grids, grid{5, []float64{0, 1, 2}, 2}, grid{6, []float64{0, 1}, 2}, grid{4, []float64{0, 1}, 3})
	}
	weights2 := [][]float64{{1, 1}, {2, 1}}
	weights3 := [][]float64{{1, 2, 3}, {1, 1, 2}, {0.1, 0.2, 0.3}} // 0.1+0.2 != 0.3 in binary floating point: equal within 1e-6 only
	for _, g := range grids {
		dims := make([]int, g.n*g.m)
		for i := range dims {
			dims[i] = len(g.levels)
		}
		ws := weights2
		if g.n <= 3 && len(g.levels) == 3 && g.levels[2] == 2 {
			ws = append(append([][]float64{}, weights2...), []float64{-1, 2}, []float64{-2, -1}) // any weights: negative ones too
		}
		typeSets := [][]string{{"", "gain"}, {"gain", "cost"}} // "" = type left out (documented default: gain)
		if g.m == 3 {
			ws = weights3
			typeSets = [][]string{{"gain", "", "gain"}, {"cost", "gain", "cost"}}
		}
		currents := []string{"", ids6[0], ids6[g.n-1], "zz"}
		if g.n == 1 {
			currents = []string{"", ids6[0], "zz"}
		}
		Product(dims, func(idx []int) {
			if !s.Take() {
				return
			}
			vals := make([][]float64, g.n)
			for i := range vals {
				vals[i] = make([]float64, g.m)
				for j := range vals[i] {
					vals[i][j] = g.levels[idx[i*g.m+j]]
				}
			}
			for _, types := range typeSets {
				for _, w := range ws {
					for _, pol := range majPolicies {
						for _, cc := range currents {
							cfg := majCfg{N: g.n, Vals: vals, Types: types, Weights: w, Policy: pol, Current: cc}
							fn(&Case{Prop: prop, Kind: "majority", Req: majRequest(cfg)})
							if g.m == 3 && g.n <= 3 {
								// the same tournament after a criteria omission took the weakest of the three criteria
								fn(&Case{Prop: prop, Kind: "majority", Req: withBiases(majRequest(cfg), []M{bias("criteriaOmission", M{"ratio": 0.34})})})
							}
							if g.n == 3 && g.m == 2 && len(g.levels) == 3 && g.levels[2] == 2 {
								fn(&Case{Prop: prop, Kind: "majority", Req: renameIDs(majRequest(cfg), untidyIDs)}) // untidy ids
							}
							if g.n >= 3 && g.n <= 4 && g.m == 2 && len(g.levels) == 3 && g.levels[2] == 2 {
								fn(&Case{Prop: prop, Kind: "majority", Req: reverseChose(majRequest(cfg))}) // choseToMake against the catalogue order
								cfg.Reverse = true                                                          // choseToMake listed in descending id order
								fn(&Case{Prop: prop, Kind: "majority", Req: majRequest(cfg)})
							}
						}
					}
				}
			}
		})
	}
	// random order / random policy with scripted generator answers
	menu := []float64{0, 0.25, 0.5, 0.75, 1 - 1.0/(1<<53)}
	for n := 2; n <= 4; n++ {
		dims := make([]int, n*2)
		for i := range dims {
			dims[i] = 2
		}
		calls := 2 * (n - 1)
		var scripts [][]float64
		var defaults []float64
		for _, v := range menu {
			scripts = append(scripts, []float64{})
			defaults = append(defaults, v)
		}
		d := 1
		if !quick(s) {
			d = 2
		}
		sm := make([]int, calls)
		for i := range sm {
			sm[i] = len(menu)
		}
		Deviations(sm, d, func(idx []int) {
			nz := false
			sc := make([]float64, calls)
			for i, k := range idx {
				sc[i] = menu[k]
				if k != 0 {
					nz = true
				}
			}
			if nz {
				scripts = append(scripts, sc)
				defaults = append(defaults, 0)
			}
		})
		Product(dims, func(idx []int) {
			if !s.Take() {
				return
			}
			vals := make([][]float64, n)
			for i := range vals {
				vals[i] = []float64{float64(idx[i*2]), float64(idx[i*2+1])}
			}
			for _, pol := range []string{"allow", "current", "newer", "random"} {
				for _, cc := range []string{"", ids6[n-1], "zz"} {
					for si, sc := range scripts {
						for _, rnd := range []bool{true, false} {
							if !rnd && pol != "random" {
								continue
							}
							cfg := majCfg{N: n, Vals: vals, Types: []string{"gain", "gain"}, Weights: []float64{1, 1}, Policy: pol, Current: cc, Random: rnd}
							fn(&Case{Prop: prop, Kind: "majority", Req: majRequest(cfg), Script: sc, Params: M{"script_default": defaults[si]}})
						}
					}
				}
			}
		})
	}
}

func c11Run(s *Shard) {
	cur = s
	s.Bounds["grids"] = "n<=4:{0,1,2}^2, n=5:{0,1}^2, n=3 tie-neighbourhood, m=3:{0,1}^3 n<=3; thorough adds n=5:{0,1,2}^2, n=6:{0,1}^2, n=4 m=3"
	s.Bounds["script_deviations"] = map[bool]int{true: 1, false: 2}[quick(s)]
	seededOrderCases(s, "C11", "majorityHeuristic", func(c *Case) {
		s.Evals += 4
		s.Begin(c)
		s.Report(c11Check(c))
	})
	// 13 and more alternatives, every draw policy, current choice none / considered / known only
	for _, n := range manySizes {
		for pat := 0; pat < 4; pat++ {
			for _, pol := range majPolicies {
				for _, cc := range []string{"", "n00", "zz"} {
					if !s.Take() {
						continue
					}
					mp := M{"weights": M{"c1": 1.0, "c2": 1.0}, "drawResolution": pol, "randomSeed": 4}
					if cc != "" {
						mp["currentChoice"] = cc
					}
					if pol == "random" {
						continue // the oracle is existential over coin sequences: exponential in the number of draws
					}
					c := &Case{Prop: "C11", Kind: "majority", Req: manyAlternatives("majorityHeuristic", n, pat, mp)}
					s.Evals++
					s.Begin(c)
					s.Report(c11Check(c))
				}
			}
		}
	}
	majEnumerate(s, "C11", func(c *Case) {
		s.Evals++
		s.Begin(c)
		vs := c11Check(c)
		s.Report(vs)
		if len(s.Samples) < 2 && c.Script != nil && len(c.Script) > 0 {
			s.Sample(M{"request": c.Req, "script": fmt.Sprint(c.Script)})
		}
	})
}
