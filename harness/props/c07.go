package props

import (
	"bytes"
	"fmt"
	"strings"

	. "rdmverif/engine"
)

// C07 — biases compose with every method and keep the working data coherent (DESIGN.md 6.C07). E2: explicit-state
// search over the real transition function Bias.Apply, states canonicalised, invariants on every transition.

func init() {
	Register(&Property{
		ID: "C07", Level: "model_checking",
		Rule: "E2: roots = 7 methods x {considered = known, considered subset of known} on 3 alternatives x 3 criteria (+ majority/satisfaction with currentChoice inside/outside choseToMake); transitions = one real Bias.Apply from the service's own bias map with the real " +
			"listener (alphabet: 53 bias configurations full / 27 medium / 12 core); quick: depth<=2 full alphabet + depth 3 core + depth 2 over 20 seeded criterion-adding biases; thorough: depth 3 medium + depth 4 core + depth 3 adders. " +
			"States are canonical dumps of the DecisionMakingParams (merged per root, original fixed per root). Invariants on every transition: I1 answered, I2 every known alternative has a value for every " +
			"current criterion, I3 the method evaluates the state into a well-formed ranking, I4 ids and considered/not-considered split unchanged, I5 criteria change exactly as reported, " +
			"I6 non-rewriting biases leave existing values untouched. Conformance: for every transition the response of a plain MakeDecision on the same request equals the stepped one (bytes).",
		Assume: []string{"states are merged on the canonical dump of (criteria, both alternative lists, method parameters); sound because Apply is a function of (original, current, props, listener) and the invariants are transition-local",
			"the ten-line gating loop around Bias.Apply is restated by the harness; the per-transition conformance check binds it to MakeDecision"},
		Run:      c07Run,
		Check:    c07Check,
		Finalize: c07Finalize,
	})
}

type c07Step struct {
	prev, next State
	report     map[string]interface{}
	fired      bool
	alteredAt  int // index of the first earlier report that a later stage altered (-1: none)
}

// runPath executes root+biases by stepping; returns the last transition and the stepper.
func runPath(req M) (st *Stepper, last c07Step, failAt int, err error) {
	st, err = NewStepper(J(req))
	if err != nil {
		return nil, last, -1, err
	}
	i := 0
	for !st.Done() {
		prev := StateOf(st.Current)
		fired, e := st.Step()
		if e != nil {
			return st, last, i, e
		}
		var rep map[string]interface{}
		jsonUnmarshal(st.RepJSON[len(st.RepJSON)-1], &rep)
		last = c07Step{prev: prev, next: StateOf(st.Current), report: rep, fired: fired, alteredAt: -1}
		i++
	}
	if at, ok := st.ReportsStable(); !ok {
		last.alteredAt = at
	}
	return st, last, -1, nil
}

func reportedCriteriaChange(rep map[string]interface{}) (omitted, added []string) {
	p := asM(rep["props"])
	if p == nil {
		return
	}
	for _, o := range asL(p["omittedCriteria"]) {
		omitted = append(omitted, asS(asM(o)["id"]))
	}
	for _, a := range asL(p["addedCriteria"]) {
		added = append(added, asS(asM(a)["id"]))
	}
	if nc := asM(p["newCriterion"]); nc != nil {
		added = append(added, asS(nc["id"]))
	}
	if ar := asM(p["applierResult"]); ar != nil {
		for _, a := range asL(ar["addedCriteria"]) {
			added = append(added, asS(asM(a)["id"]))
		}
	}
	return
}

func rewritesValues(b M) bool {
	switch biasLabel(b) {
	case "fatigue", "preferenceReversal", "anchoring:inline":
		return true
	}
	return false
}

func c07Check(c *Case) []Violation {
	req := asM(roundTrip(c.Req))
	vs, _ := c07Transition(c, req)
	return vs
}

// c07Transition checks the last transition of the request's bias list (all earlier ones must succeed: they were
// checked as transitions of their own when their node was expanded).
func c07Transition(c *Case, req M) ([]Violation, *State) {
	method := asS(req["preferenceFunction"])
	var bs []M
	for _, b := range asL(req["biases"]) {
		bs = append(bs, asM(b))
	}
	lastB := bs[len(bs)-1]
	tag := method + "/" + biasLabel(lastB)
	st, step, failAt, err := runPath(req)
	if err != nil {
		if failAt >= 0 && failAt < len(bs)-1 {
			return nil, nil // an earlier transition fails: reported where that transition is the last one
		}
		if st == nil {
			return []Violation{viol(c, "C07/setup/"+method+"/"+normPanic(err.Error()), "request could not be prepared: %v", err)}, nil
		}
		return []Violation{viol(c, "C07/apply-panic/"+tag+"/"+normPanic(err.Error()), "bias sequence [%s] on %s is answered with an error produced by the combination: %v", fmtPath(bs), method, err)}, nil
	}
	var vs []Violation
	prev, next := step.prev, step.next
	// I4
	ids := func(as []StateAlt) string {
		var s []string
		for _, a := range as {
			s = append(s, a.ID)
		}
		return strings.Join(s, ",")
	}
	if ids(prev.Considered) != ids(next.Considered) || ids(prev.NotConsidered) != ids(next.NotConsidered) {
		vs = append(vs, viol(c, "C07/split-changed/"+tag, "[%s]: considered/not-considered changed from %s|%s to %s|%s", fmtPath(bs), ids(prev.Considered), ids(prev.NotConsidered), ids(next.Considered), ids(next.NotConsidered)))
	}
	// I5
	om, ad := reportedCriteriaChange(step.report)
	want := []string{}
	for _, id := range prev.CritIDs() {
		if !contains(om, id) {
			want = append(want, id)
		}
	}
	want = append(want, ad...)
	if !sameSet(want, next.CritIDs()) || hasDup(next.CritIDs()) {
		vs = append(vs, viol(c, "C07/criteria-mismatch/"+tag, "[%s]: criteria after the bias are %v; before %v, reported omitted %v, added %v", fmtPath(bs), next.CritIDs(), prev.CritIDs(), om, ad))
	}
	// I2
	for _, a := range next.All() {
		for _, cid := range next.CritIDs() {
			if _, ok := a.Values[cid]; !ok {
				vs = append(vs, viol(c, "C07/missing-value/"+tag, "[%s]: alternative %s has no value for current criterion %s (values %v)", fmtPath(bs), a.ID, cid, a.Values))
			}
		}
	}
	// I2b: values appear only for criteria the bias reports as added (data of omitted criteria must not come back)
	{
		pk := map[string]map[string]float64{}
		for _, a := range prev.All() {
			pk[a.ID] = a.Values
		}
		for _, a := range next.All() {
			for k := range a.Values {
				if _, had := pk[a.ID][k]; !had && !contains(ad, k) {
					vs = append(vs, viol(c, "C07/stale-value/"+tag, "[%s]: alternative %s has a value for %s after the bias, which it did not have before and which the bias does not report as added", fmtPath(bs), a.ID, k))
				}
			}
		}
	}
	// I6
	if step.fired && !rewritesValues(lastB) {
		pv := map[string]map[string]float64{}
		for _, a := range prev.All() {
			pv[a.ID] = a.Values
		}
		for _, a := range next.All() {
			for _, cid := range next.CritIDs() {
				if old, ok := pv[a.ID][cid]; ok {
					if nv, ok2 := a.Values[cid]; ok2 && nv != old {
						vs = append(vs, viol(c, "C07/value-not-preserved/"+tag, "[%s]: %s does not deliberately rewrite values, but %s.%s changed from %v to %v (an earlier bias's change is lost)", fmtPath(bs), biasLabel(lastB), a.ID, cid, old, nv))
					}
				}
			}
		}
	}
	// I6b: inline anchoring rewrites the considered alternatives only, unless it is told to apply to the others too —
	// values of not-considered alternatives (and whatever an earlier bias did to them) stay in force
	if step.fired && biasLabel(lastB) == "anchoring:inline" {
		ap := asM(asM(asM(lastB["props"])["applier"])["params"])
		if on, _ := ap["applyOnNotConsidered"].(bool); !on {
			pv := map[string]map[string]float64{}
			for _, a := range prev.NotConsidered {
				pv[a.ID] = a.Values
			}
			for _, a := range next.NotConsidered {
				for cid, old := range pv[a.ID] {
					if nv, ok := a.Values[cid]; ok && nv != old {
						vs = append(vs, viol(c, "C07/value-not-preserved/"+tag, "[%s]: inline anchoring without applyOnNotConsidered changed %s.%s of a not-considered alternative from %v to %v", fmtPath(bs), a.ID, cid, old, nv))
					}
				}
			}
		}
	}
	// I3 + conformance
	rk, eerr := st.Evaluate()
	if eerr != nil {
		vs = append(vs, viol(c, "C07/evaluate-panic/"+tag+"/"+normPanic(eerr.Error()), "[%s]: the method cannot evaluate the resulting state: %v", fmtPath(bs), eerr))
		return vs, &next
	}
	body := st.AssembleResponse(rk)
	resp, perr := ParseResponse(body)
	if perr != nil {
		vs = append(vs, viol(c, "C07/unparsable", "%v", perr))
		return vs, &next
	}
	for _, v := range wellFormed(c, resp, expectedIDs(req)) {
		v.Sig = "C07/" + v.Sig
		vs = append(vs, v)
	}
	// I5 on the answer as a whole: the criteria the request declares, changed as the bias entries of the answer report it
	// one after the other, are the criteria the method received (a report rewritten by a later stage shows here)
	var told []string
	for _, cr := range asL(req["criteria"]) {
		told = append(told, asS(asM(cr)["id"]))
	}
	for _, be := range resp.Biases {
		om, ad := reportedCriteriaChange(be)
		var kept []string
		for _, id := range told {
			if !contains(om, id) {
				kept = append(kept, id)
			}
		}
		told = append(kept, ad...)
	}
	if !sameSet(told, next.CritIDs()) || hasDup(told) {
		vs = append(vs, viol(c, "C07/criteria-mismatch-in-answer/"+tag, "[%s]: the bias entries of the answer account for the criteria %v, the method received %v", fmtPath(bs), told, next.CritIDs()))
	}
	out := Decide(J(req), nil)
	if !out.Accepted {
		vs = append(vs, viol(c, "C07/conformance/"+tag, "[%s]: stepped run answers but MakeDecision rejects: %s", fmtPath(bs), out.Err))
	} else if !bytes.Equal(out.Body, body) {
		vs = append(vs, viol(c, "C07/conformance/"+tag, "[%s]: response assembled from the stepped run differs from MakeDecision's", fmtPath(bs)))
	} else {
		stat("traces_validated")
	}
	return vs, &next
}

type c07Node struct {
	path []M
}

func c07Explore(s *Shard, prop string, root M, rootName string, first M, plan [][]M, visit func(c *Case, req M) ([]Violation, *State)) {
	// plan[d] = alphabet used at depth d+1 (plan[0] is ignored: `first` is the depth-1 transition of this subtree)
	seen := map[string]bool{}
	frontier := []c07Node{{path: []M{first}}}
	for d := 0; d < len(plan); d++ {
		var next []c07Node
		for _, n := range frontier {
			var cands [][]M
			if d == 0 {
				cands = [][]M{n.path}
			} else {
				for _, t := range plan[d] {
					cands = append(cands, append(append([]M{}, n.path...), t))
				}
			}
			for _, p := range cands {
				req := withBiases(root, p)
				c := &Case{Prop: prop, Kind: "bias-sequence", Req: req}
				s.Evals++
				s.Count("transitions", 1)
				s.Begin(c)
				vs, st := visit(c, asM(roundTrip(req)))
				s.Report(vs)
				if st == nil || len(vs) > 0 {
					// a transition that breaks an invariant is reported once; its (incoherent) target state is not expanded
					if len(vs) > 0 {
						s.Count("transitions_violating_not_expanded", 1)
					}
					continue
				}
				k := st.Canon()
				s.Outcome(true, rootName, k)
				if !seen[k] {
					seen[k] = true
					next = append(next, c07Node{path: p})
				} else {
					s.Count("merged_states", 1)
				}
			}
		}
		frontier = next
	}
}

type c07Root struct {
	name string
	req  M
}

func c07Roots() []c07Root {
	var out []c07Root
	for _, m := range allMethods {
		for _, sub := range []bool{false, true} {
			out = append(out, c07Root{fmt.Sprintf("%s/subset=%v", m, sub), rootRequest(m, sub, false)})
		}
	}
	// untidy identifiers and a larger instance
	for _, m := range allMethods {
		out = append(out, c07Root{m + "/odd-ids", oddIdsRequest(m)}, c07Root{m + "/5-criteria-6-alternatives", bigRequest(m)})
	}
	// a criterion with a single value over all known alternatives (zero-width observed range), one that is 0 everywhere
	for _, m := range allMethods {
		out = append(out, c07Root{m + "/single-valued-c3", degenerateVariant(rootRequest(m, true, false), false)},
			c07Root{m + "/single-valued-c3-and-zero-c1", degenerateVariant(rootRequest(m, false, false), true)})
	}
	// criteria that the request itself names like generated ones: with two criteria carrying the generated prefix, the
	// suffixes 2 and 3 are taken, so a bias that adds a criterion has to step over two used names
	for mi, m := range allMethods {
		bases := []string{"__concealedCriterion__"}
		if mi%3 == 0 {
			bases = append(bases, "__anchoring_criterion_ideal")
		}
		for _, b := range bases {
			vals := [][]float64{rootVals["a"], rootVals["b"], rootVals["c"]}
			out = append(out, c07Root{m + "/declared-ids-like-generated:" + b, genericRequest(m, []string{"c1", b + "2", b + "3"}, 1, []string{"a", "b", "c"}, vals, []string{"c", "a"}, []float64{1, 2, 3})})
		}
	}
	// more criteria than known alternatives (per-criterion and per-alternative buffers have different lengths)
	for _, m := range allMethods {
		cids := []string{"k1", "k2", "k3", "k4", "k5", "k6", "k7"}
		out = append(out, c07Root{m + "/7-criteria-2-alternatives", genericRequest(m, cids, 1, []string{"a", "c"},
			[][]float64{{1, 4, 2, 3, 5, 1, 2}, {3, 1, 2.5, 2, 4, 4, 1}}, []string{"c", "a"}, []float64{1, 2, 3, 4, 5, 6, 7})})
	}
	// generated aspiration-level series (their bias listeners are wired separately in main.go)
	out = append(out,
		c07Root{"aspectEliminationHeuristic/idealAdditive", withMP(rootRequest("aspectEliminationHeuristic", true, false), M{"function": "idealAdditiveCoefficient", "params": M{"coefficient": 0.25, "minValue": 0.0, "maxValue": 1.0}})},
		c07Root{"aspectEliminationHeuristic/idealMultiplied", withMP(rootRequest("aspectEliminationHeuristic", true, false), M{"function": "idealMultipliedCoefficient", "params": M{"coefficient": 0.5, "minValue": 0.25, "maxValue": 1.0}})},
		c07Root{"satisfactionHeuristic/idealSubtractive", withMP(rootRequest("satisfactionHeuristic", true, false), M{"function": "idealSubtractiveCoefficient", "params": M{"coefficient": 0.25, "minValue": 0.25, "maxValue": 1.0}})},
		c07Root{"satisfactionHeuristic/idealMultiplied", withMP(rootRequest("satisfactionHeuristic", true, false), M{"function": "idealMultipliedCoefficient", "params": M{"coefficient": 0.5, "minValue": 0.125, "maxValue": 1.0}})},
	)
	for _, m := range []string{"majorityHeuristic", "satisfactionHeuristic"} {
		out = append(out, c07Root{m + "/odd-ids/currentChoice=whitespace-only-id", withMP(oddIdsRequest(m), M{"currentChoice": " "})},
			c07Root{m + "/odd-ids/currentChoice=leading-space-id", withMP(oddIdsRequest(m), M{"currentChoice": " a"})})
	}
	// heuristics with a current choice inside / outside choseToMake (the current choice must survive every bias)
	for _, m := range []string{"majorityHeuristic", "satisfactionHeuristic"} {
		for _, cc := range []string{"a", "c"} {
			out = append(out, c07Root{fmt.Sprintf("%s/subset=true/currentChoice=%s", m, cc), withMP(rootRequest(m, true, false), M{"currentChoice": cc})})
		}
	}
	return out
}

func c07Plans(s *Shard) [][][]M {
	full, medium, core := biasAlphabet(2), biasAlphabet(1), biasAlphabet(0)
	// repeated criterion-adding biases under 16 seeds each: forces the same criteria pair / reference criterion to be picked again
	var adders []M
	for seed := 0; seed < 16; seed++ {
		adders = append(adders, bias("criteriaMixing", refStrategy(M{"randomSeed": seed, "mixingRatio": 0.5}, 0)))
	}
	for seed := 0; seed < 4; seed++ {
		adders = append(adders, bias("criteriaConcealment", refStrategy(M{"randomSeed": seed}, 1)))
	}
	// enabled entries that lose their activation draw (probability 0): they change nothing, whatever came before
	var idle []M
	for _, b := range []M{core[2], core[0], core[4]} {
		nb := M{"applyProbability": 0.0}
		for k, v := range b {
			nb[k] = v
		}
		idle = append(idle, nb)
	}
	if quick(s) {
		return [][][]M{{full, full}, {core, core, core}, {adders, adders}, {core, idle}, {idle, core}}
	}
	return [][][]M{{full, full}, {medium, medium, medium}, {core, core, core, core}, {adders, adders, adders}, {medium, idle, core}, {idle, medium}}
}

func c07Run(s *Shard) {
	cur = s
	plans := c07Plans(s)
	s.Bounds["alphabet_full"] = len(biasAlphabet(2))
	s.Bounds["alphabet_medium"] = len(biasAlphabet(1))
	s.Bounds["alphabet_core"] = len(biasAlphabet(0))
	s.Bounds["plans(depth x alphabet)"] = map[bool]string{true: "2 x full, 3 x core", false: "2 x full, 3 x medium, 4 x core"}[quick(s)]
	// long requests: 8..12 biases in one request (beyond the BFS depth), every prefix checked as a transition
	core := biasAlphabet(0)
	long := [][]M{
		{core[2], core[3], core[2], core[3], core[2], core[3], core[2], core[3], core[2], core[3]},
		{core[4], core[5], core[6], core[4], core[0], core[6], core[9], core[1], core[8], core[7], core[10], core[2]},
		{core[7], core[1], core[11], core[10], core[7], core[1], core[2], core[8], core[0], core[4]},
	}
	s.Bounds["long_paths"] = []int{len(long[0]), len(long[1]), len(long[2])}
	for _, r := range c07Roots() {
		for li, path := range long {
			if !s.Take() {
				continue
			}
			for n := 1; n <= len(path); n++ {
				req := withBiases(r.req, path[:n])
				c := &Case{Prop: "C07", Kind: "transition", Req: req, Params: M{"root": r.name, "long_path": li, "depth": n}}
				s.Evals++
				s.Count("transitions", 1)
				s.Begin(c)
				vs, _ := c07Transition(c, req)
				s.Report(vs)
				if len(vs) > 0 {
					break
				}
			}
		}
	}
	sampled := false
	for _, r := range c07Roots() {
		for _, plan := range plans {
			for _, first := range plan[0] {
				if !s.Take() {
					continue
				}
				c07Explore(s, "C07", r.req, r.name, first, plan, c07Transition)
				if !sampled {
					s.Sample(M{"root": r.name, "path_example": withBiases(r.req, []M{first, plan[len(plan)-1][0]})})
					sampled = true
				}
			}
		}
	}
}

func c07Finalize(m *Merged) {
	m.Extra["states"] = m.Distinct + len(c07Roots())
	m.Extra["transitions"] = m.Counters["transitions"]
	m.Extra["traces_validated_against_impl"] = m.Counters["traces_validated"]
}

func init() {
	c01Extra = append(c01Extra, func(s *Shard, run func(c *Case)) {
		alpha := biasAlphabet(1)
		if liteEnum {
			alpha = biasAlphabet(0)
		}
		for _, r := range c07Roots() {
			for _, a := range alpha {
				if !s.Take() {
					continue
				}
				run(&Case{Kind: "bias-sequence", Req: withBiases(r.req, []M{a})})
				for _, b := range alpha {
					run(&Case{Kind: "bias-sequence", Req: withBiases(r.req, []M{a, b})})
				}
			}
		}
	})
}
