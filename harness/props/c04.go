package props

import (
	"fmt"
	"sort"
	"strings"

	"github.com/Azbesciak/RealDecisionMaker/lib/model"

	. "rdmverif/engine"
)

// C04 — a utility ranking is exactly the order of the utilities (DESIGN.md 6.C04, A.1).

// -1 and 0 are in the grid on purpose: a utility of exactly 0 (and tiers below it) is ordinary with cost criteria
// -1e-9 rounds to negative zero: the same utility as 0 (and as +1e-9, which rounds to 0)
var c04Levels = []float64{0, 1, 0.7 + 1.4, 1 + 4e-9, 1 + 6e-9, -1, 2.1, 1e11, -1e-9, 1e-9} // 0.7+1.4 = 2.0999999999999996 rounds to 2.1

func c04LevelsFor(n int, thorough bool) []float64 {
	switch {
	case n <= 3:
		return c04Levels
	case n == 4:
		return c04Levels[:6]
	case n == 5 && thorough:
		return c04Levels[:6]
	case n == 5:
		return []float64{0, 1, 1 + 6e-9, -1e-9}
	default:
		return []float64{0, 1, -1}
	}
}

var utilMethods = []string{"weightedSum", "owa", "choquetIntegral"}

func init() {
	Register(&Property{
		ID: "C04", Level: "exploration",
		Rule: "E1 full product: every value function n alternatives -> {-1,0,1,1+4e-9,1+6e-9,0.7+1.4 (=2.0999999999999996),2.1} for n<=3, without 2.1 for n=4 (n=5: {-1,0,1,1+6e-9}; thorough n=5 full, n=6 {-1,0,1}) x " +
			"every permutation of knownAlternatives x every permutation of choseToMake (independently for n<=3; n=4: all 24 of each combined with identity/same/last of the other, thorough all 576; rotations+reversal above; " +
			"thorough all n! for n<=5) x {weightedSum,owa,choquetIntegral} x {all considered, one extra known alternative not considered}; " +
			"plus every two-level assignment of 13 alternatives (beyond the 12-element threshold of the library sort), plus the exported Ranking() on every weak order of 7 (thorough) / 6 (quick) alternatives. " +
			"distinct_nontrivial = distinct (method, response) pairs whose ranking has >=2 value classes.",
		Assume: []string{"values are taken from a 5-level grid containing two levels that coincide with / differ from 1 only after the 1e-8 rounding",
			"single-criterion requests with weight/capacity 1 are used so that utility == criterion value for all three methods"},
		Run:   c04Run,
		Check: c04Check,
	})
}

func c04Request(method string, ids []string, vals []float64, known, chose []string, extra bool) M {
	val := map[string]float64{}
	for i, id := range ids {
		val[id] = vals[i]
	}
	var ka L
	for _, id := range known {
		ka = append(ka, alt(id, map[string]float64{"c1": val[id]}))
	}
	if extra {
		ka = append(ka, alt("zz", map[string]float64{"c1": 1.5}))
	}
	return M{
		"preferenceFunction": method,
		"knownAlternatives":  ka,
		"choseToMake":        strs(chose),
		"criteria":           L{crit("c1", "gain")},
		"methodParameters":   M{"weights": M{"c1": 1.0}},
	}
}

type c04Expect struct {
	order []string
	links map[string][]string
	value map[string]float64
}

// reference model A.1
func c04Reference(ids []string, vals []float64) c04Expect {
	r := map[string]float64{}
	for i, id := range ids {
		r[id] = round8(vals[i])
	}
	order := append([]string{}, ids...)
	sort.Slice(order, func(i, j int) bool {
		if r[order[i]] != r[order[j]] {
			return r[order[i]] > r[order[j]]
		}
		return order[i] < order[j]
	})
	levelSet := map[float64]bool{}
	for _, v := range r {
		levelSet[v] = true
	}
	var levels []float64
	for v := range levelSet {
		levels = append(levels, v)
	}
	sort.Sort(sort.Reverse(sort.Float64Slice(levels)))
	next := map[float64]float64{}
	hasNext := map[float64]bool{}
	for i := 0; i+1 < len(levels); i++ {
		next[levels[i]] = levels[i+1]
		hasNext[levels[i]] = true
	}
	links := map[string][]string{}
	for _, x := range ids {
		for _, y := range ids {
			if x == y {
				continue
			}
			if r[y] == r[x] || (hasNext[r[x]] && r[y] == next[r[x]]) {
				links[x] = append(links[x], y)
			}
		}
	}
	return c04Expect{order, links, r}
}

// c04Profiles: value profiles over three criteria whose ascending orders of the criteria differ from one alternative to the
// next (every permutation of 1,2,3), plus a flat and a tied one.
var c04Profiles = [][]float64{{1, 2, 3}, {1, 3, 2}, {2, 1, 3}, {2, 3, 1}, {3, 1, 2}, {3, 2, 1}, {2, 2, 2}, {1, 1, 3}}

func c04MultiRequest(method string, prof []int, known, chose []string) M {
	idx := map[string]int{}
	for i, id := range ids6[:len(prof)] {
		idx[id] = prof[i]
	}
	vals := make([][]float64, len(known))
	for i, id := range known {
		vals[i] = c04Profiles[idx[id]]
	}
	req := genericRequest(method, critIDs(3), -1, known, vals, chose, []float64{1, 2, 4})
	if method == "choquetIntegral" {
		// not additive: every pair is worth 0.9 of the sum of its members
		w := asM(asM(req["methodParameters"])["weights"])
		for k, v := range w {
			if strings.Count(k, ",") == 1 {
				w[k] = asF(v) * 0.9
			}
		}
	}
	return req
}

// c04Multi: several criteria. The values the id-ordered listing reports are taken as the utilities; order and links of that
// answer must follow from them, and every other listing of the same alternatives must report the same value, class and
// links for every alternative.
func c04Multi(c *Case) []Violation {
	method := asS(c.Params["method"])
	prof := toInts(c.Params["profiles"])
	ids := ids6[:len(prof)]
	out := Decide(J(c04MultiRequest(method, prof, ids, ids)), nil)
	if !out.Accepted {
		return []Violation{viol(c, "C04/rejected", "valid utility request rejected: %s", out.Err)}
	}
	base, err := ParseResponse(out.Body)
	if err != nil {
		return []Violation{viol(c, "C04/unparsable", "%v", err)}
	}
	vals := make([]float64, len(ids))
	for _, e := range base.Result {
		for i, id := range ids {
			if id == e.Alternative.ID {
				vals[i] = asF(e.Evaluation["value"])
			}
		}
	}
	exp := c04Reference(ids, vals)
	vs := c04Compare(c, base, exp)
	for _, pk := range permSet(len(ids), 4) {
		for _, pc := range permSet(len(ids), 4) {
			o2 := Decide(J(c04MultiRequest(method, prof, permute(ids, pk), permute(ids, pc))), nil)
			stat("transitions")
			if !o2.Accepted {
				return append(vs, viol(c, "C04/rejected", "valid utility request rejected for the listing known=%v chose=%v: %s", permute(ids, pk), permute(ids, pc), o2.Err))
			}
			r2, err := ParseResponse(o2.Body)
			if err != nil {
				return append(vs, viol(c, "C04/unparsable", "%v", err))
			}
			for _, v := range c04Compare(c, r2, exp) {
				v.Sig = "C04/listing-order/" + strings.TrimPrefix(v.Sig, "C04/")
				v.Msg = fmt.Sprintf("listing known=%v chose=%v (values taken from the id-ordered listing): %s", permute(ids, pk), permute(ids, pc), v.Msg)
				vs = append(vs, v)
			}
			if len(vs) > 0 {
				return vs
			}
			stat("traces_validated")
		}
	}
	return vs
}

func c04Check(c *Case) []Violation {
	if c.Kind == "ranking" {
		return c04CheckRanking(c)
	}
	if c.Kind == "multi" {
		return c04Multi(c)
	}
	body := J(c.Req)
	out := Decide(body, nil)
	if !out.Accepted {
		return []Violation{viol(c, "C04/rejected", "valid utility request rejected: %s", out.Err)}
	}
	resp, err := ParseResponse(out.Body)
	if err != nil {
		return []Violation{viol(c, "C04/unparsable", "%v", err)}
	}
	ids := toStrings(c.Params["ids"])
	vals := toFloats(c.Params["vals"])
	exp := c04Reference(ids, vals)
	return c04Compare(c, resp, exp)
}

func c04Compare(c *Case, resp *Response, exp c04Expect) []Violation {
	var vs []Violation
	var got []string
	for _, e := range resp.Result {
		got = append(got, e.Alternative.ID)
	}
	if fmt.Sprint(got) != fmt.Sprint(exp.order) {
		vs = append(vs, viol(c, "C04/order", "result order %v, expected (value desc, id asc) %v", got, exp.order))
	}
	for _, e := range resp.Result {
		id := e.Alternative.ID
		v, isNum := e.Evaluation["value"].(float64)
		if !isNum {
			vs = append(vs, viol(c, "C04/value-not-reported", "alternative %s: the evaluation %v carries no numeric value", id, e.Evaluation))
		}
		if ev, ok := exp.value[id]; ok && v != ev {
			vs = append(vs, viol(c, "C04/value", "alternative %s reports value %v, expected rounded utility %v", id, v, ev))
		}
		if !sameSet(e.BetterThanOrSameAs, exp.links[id]) || hasDup(e.BetterThanOrSameAs) {
			vs = append(vs, viol(c, "C04/links", "alternative %s links %v, expected same-value ∪ next-lower-level = %v", id, e.BetterThanOrSameAs, sortedCopy(exp.links[id])))
		}
	}
	return vs
}

func toStrings(v interface{}) []string {
	switch x := v.(type) {
	case []string:
		return x
	case []interface{}:
		o := make([]string, len(x))
		for i, e := range x {
			o[i], _ = e.(string)
		}
		return o
	}
	return nil
}

func toFloats(v interface{}) []float64 {
	switch x := v.(type) {
	case []float64:
		return x
	case []interface{}:
		o := make([]float64, len(x))
		for i, e := range x {
			o[i], _ = e.(float64)
		}
		return o
	}
	return nil
}

func toInts(v interface{}) []int {
	switch x := v.(type) {
	case []int:
		return x
	case []interface{}:
		o := make([]int, len(x))
		for i, e := range x {
			f, _ := e.(float64)
			o[i] = int(f)
		}
		return o
	}
	return nil
}

func c04Run(s *Shard) {
	maxN, fullPerm := 5, 4
	if !quick(s) {
		maxN, fullPerm = 6, 5
	}
	// several criteria: all triples of profiles x the three methods x every listing of known and considered alternatives
	Product([]int{len(c04Profiles), len(c04Profiles), len(c04Profiles)}, func(o []int) {
		for _, method := range utilMethods {
			if !s.Take() {
				continue
			}
			c := &Case{Prop: "C04", Kind: "multi", Params: M{"method": method, "profiles": []int{o[0], o[1], o[2]}}}
			s.Evals += 37
			s.Begin(c)
			s.Report(c04Multi(c))
		}
	})
	s.Bounds["max_alternatives"] = maxN
	s.Bounds["full_permutations_up_to"] = fullPerm
	s.Bounds["levels"] = c04Levels
	// no criterion at all — declared so, or every criterion omitted by a bias (ratio 1): every utility is 0, the ranking is
	// the ascending-id order with everybody linking everybody, whatever the listings
	for n := 1; n <= 4; n++ {
		ids := ids6[:n]
		zeros := make([]float64, n)
		for _, method := range utilMethods {
			for _, route := range []string{"declared-empty", "omission-ratio-1", "two-omissions"} {
				for _, pk := range permSet(n, 4) {
					for _, pc := range permSet(n, 4) {
						if !s.Take() {
							continue
						}
						known, chose := permute(ids, pk), permute(ids, pc)
						req := c04Request(method, ids, zeros, known, chose, false)
						switch route {
						case "declared-empty":
							req["criteria"] = L{}
							req["methodParameters"] = M{"weights": M{}}
							for _, a := range asL(req["knownAlternatives"]) {
								asM(a)["criteria"] = M{}
							}
						case "omission-ratio-1":
							for i, a := range asL(req["knownAlternatives"]) {
								asM(asM(a)["criteria"])["c1"] = float64(i) // values differ; they are all omitted
							}
							req["biases"] = L{bias("criteriaOmission", M{"ratio": 1.0})}
						case "two-omissions":
							if method == "choquetIntegral" {
								continue
							}
							req["criteria"] = L{crit("c1", "gain"), crit("c2", "gain")}
							req["methodParameters"] = M{"weights": M{"c1": 1.0, "c2": 2.0}}
							for i, a := range asL(req["knownAlternatives"]) {
								asM(a)["criteria"] = M{"c1": float64(i), "c2": float64(n - i)}
							}
							req["biases"] = L{bias("criteriaOmission", M{"ratio": 0.5}), bias("criteriaOmission", M{"ratio": 0.0, "min": 1})}
						}
						c := &Case{Prop: "C04", Kind: "request", Req: req, Params: M{"ids": ids, "vals": zeros, "no_criterion_left": route}}
						s.Evals++
						s.Begin(c)
						s.Report(c04Check(c))
					}
				}
			}
		}
	}
	for _, idSet := range [][]string{ids6, {"x1", "X1", "b", "B"}, {"9", "10", "1a", "01"}, {"1", "01", "10", "9"}} {
		for n := 1; n <= maxN; n++ {
			if n > len(idSet) || (idSet[0] != ids6[0] && n > 3) {
				continue // ids that differ only in letter case: up to three alternatives
			}
			ids := idSet[:n]
			perms := permSet(n, fullPerm)
			lv := c04LevelsFor(n, !quick(s))
			dims := make([]int, n)
			for i := range dims {
				dims[i] = len(lv)
			}
			Product(dims, func(idx []int) {
				if !s.Take() {
					return
				}
				vals := make([]float64, n)
				for i, k := range idx {
					vals[i] = lv[k]
				}
				exp := c04Reference(ids, vals)
				classes := map[float64]bool{}
				for _, v := range exp.value {
					classes[v] = true
				}
				// a smaller request right after a larger one (same process): the first n-1 alternatives only
				if n >= 2 {
					for _, method := range utilMethods {
						sub := ids[:n-1]
						c := &Case{Prop: "C04", Kind: "request", Req: c04Request(method, ids, vals, ids, sub, false), Params: M{"ids": sub, "vals": vals[:n-1], "after_larger_request": true}}
						s.Evals++
						s.Begin(c)
						s.Report(c04Check(c))
					}
				}
				for mi, method := range utilMethods {
					for pki, pk := range perms {
						for pci, pc := range perms {
							if ((quick(s) && n == 4) || n >= 5) && !(pki == 0 || pci == 0 || pci == pki || pci == len(perms)-1) {
								continue // n=4 quick / n>=5: every permutation of each listing, combined with 3 permutations of the other
							}
							for _, extra := range []bool{false, true} {
								if extra && (mi != 0 || n > 4) && quick(s) {
									continue
								}
								known, chose := permute(ids, pk), permute(ids, pc)
								c := &Case{Prop: "C04", Kind: "request", Req: c04Request(method, ids, vals, known, chose, extra),
									Params: M{"ids": ids, "vals": vals}}
								s.Evals++
								s.Begin(c)
								out := Decide(J(c.Req), nil)
								if !out.Accepted {
									s.Report([]Violation{viol(c, "C04/rejected", "valid utility request rejected: %s", out.Err)})
									continue
								}
								resp, err := ParseResponse(out.Body)
								if err != nil {
									s.Report([]Violation{viol(c, "C04/unparsable", "%v", err)})
									continue
								}
								s.Report(c04Compare(c, resp, exp))
								s.Outcome(len(classes) >= 2, method, out.Body)
								if n == 3 && len(classes) == 2 {
									s.Sample(M{"request": c.Req, "response": string(out.Body)})
								}
							}
						}
					}
				}
			})
		}
	}
	// more than 12 alternatives (sort implementations change strategy there): every two-level assignment of 13
	// alternatives (thorough: also 14 with three levels sampled by structure) through one utility method each
	big := 13
	dimsB := make([]int, big)
	for i := range dimsB {
		dimsB[i] = 2
	}
	idsB := make([]string, big)
	for i := range idsB {
		idsB[i] = fmt.Sprintf("n%02d", i)
	}
	Product(dimsB, func(idx []int) {
		if !s.Take() {
			return
		}
		vals := make([]float64, big)
		sum := 0
		for i, k := range idx {
			vals[i] = float64(k)
			sum += k
		}
		method := utilMethods[sum%3]
		// listing order: a fixed non-sorted interleaving
		listing := make([]string, big)
		for i := range listing {
			listing[i] = idsB[(i*5)%big]
		}
		c := &Case{Prop: "C04", Kind: "request", Req: c04Request(method, idsB, vals, listing, listing, false), Params: M{"ids": idsB, "vals": vals}}
		s.Evals++
		s.Begin(c)
		s.Report(c04Check(c))
		s.Outcome(sum > 0 && sum < big, method, "13", fmt.Sprint(idx))
	})
	// direct driver: exported AlternativeResults.Ranking() over every weak order
	nw := 6
	if !quick(s) {
		nw = 7
	}
	s.Bounds["weak_orders_n"] = nw
	dims := make([]int, nw)
	for i := range dims {
		dims[i] = nw
	}
	Product(dims, func(idx []int) {
		// canonical weak orders only: the set of used class numbers must be {0..k-1}
		used := make([]bool, nw)
		mx := 0
		for _, k := range idx {
			used[k] = true
			if k > mx {
				mx = k
			}
		}
		for k := 0; k <= mx; k++ {
			if !used[k] {
				return
			}
		}
		if !s.Take() {
			return
		}
		cls := append([]int{}, idx...)
		c := &Case{Prop: "C04", Kind: "ranking", Params: M{"classes": cls}}
		s.Evals++
		s.Begin(c)
		s.Report(c04CheckRanking(c))
		s.Outcome(mx >= 1, "ranking", fmt.Sprint(cls))
	})
}

func c04CheckRanking(c *Case) []Violation {
	cls := toInts(c.Params["classes"])
	n := len(cls)
	ids := ids6[:n]
	vals := make([]float64, n)
	res := make(model.AlternativeResults, n)
	for i := range cls {
		vals[i] = float64(cls[i])*0.5 - 1 // classes straddle 0: -1, -0.5, 0, 0.5, ...
		a := model.AlternativeWithCriteria{Id: ids[i], Criteria: model.Weights{"c1": vals[i]}}
		res[i] = *model.ValueAlternativeResult(&a, vals[i])
	}
	var resp *Response
	func() {
		defer func() {
			if e := recover(); e != nil {
				resp = nil
			}
		}()
		rk := res.Ranking()
		r, err := ParseResponse(J(M{"result": rk, "biases": L{}}))
		if err == nil {
			resp = r
		}
	}()
	if resp == nil {
		return []Violation{viol(c, "C04/ranking-panic", "Ranking() failed on classes %v", cls)}
	}
	return c04Compare(c, resp, c04Reference(ids, vals))
}
