package props

import (
	"fmt"
	"math"
	"sort"
	"strings"

	. "rdmverif/engine"
)

// C03 — utility methods report the value of their defining formula (DESIGN.md 6.C03, A.2).

var c03Values = []float64{-1, 0, 0.5, 1, 2, 1 + 5e-6, 1 + 1.2e-5}
var c03Weights = []float64{1, 2, 0.5, 0, -1}
var c03Caps = []float64{-1, 0, 0.25, 0.5, 1} // index 0 = keep the additive base value

func init() {
	Register(&Property{
		ID: "C03", Level: "exploration",
		Rule: "E1: criteria count 1..3; every alternative value vector over {-1,0,0.5,1,2,1+5e-6,1+1.2e-5}^n (all of them as alternatives of one request); " +
			"weights full product over {1,2,0.5,0,-1}^n; gain/cost full product (weightedSum); Choquet capacities = additive base with <=2 (thorough: all 4^7) " +
			"entries moved inside {0,0.25,0.5,1}; x one preceding bias of each kind (none, fatigue, reversal, omission, inline anchoring, concealment, mixing). " +
			"Oracle: |reported value - formula(final reported criteria values, effective parameters)| <= 2e-8. " +
			"distinct_nontrivial = distinct (method, parameters, bias, value vector of the response) with at least two different utilities.",
		Assume: []string{"effective post-bias parameters are reconstructed from the request parameters minus reported omitted criteria plus the methodParameters each adding bias reports",
			"Choquet capacities added by a bias are not reported by the service; those sub-cases are counted as skipped"},
		Run:   c03Run,
		Check: c03Check,
	})
}

var c03Prefixes = []string{"none", "fatigue", "reversal", "omission", "anchoring", "concealment", "mixing",
	// two preceding biases: the second one extends parameters the first one has already changed
	"concealment+mixing", "mixing+mixing", "concealment+concealment", "omission+concealment", "mixing+omission"}

func c03Bias(kind string) L {
	if i := strings.Index(kind, "+"); i > 0 {
		second := c03Bias(kind[i+1:])
		if kind[:i] == kind[i+1:] {
			// the same bias again: another seed / ratio, so that the two additions differ
			second = L(asL(deepCopy(second)))
			p := asM(asM(second[0])["props"])
			p["randomSeed"] = 11
			if _, ok := p["mixingRatio"]; ok {
				p["mixingRatio"] = 0.5
			}
		}
		return append(append(L{}, c03Bias(kind[:i])...), second...)
	}
	switch kind {
	case "fatigue":
		return L{M{"name": "fatigue", "props": M{"function": "const", "params": M{"value": 0.25}, "randomSeed": 3}}}
	case "reversal":
		return L{M{"name": "preferenceReversal", "props": M{"ratio": 0.5, "min": 1}}}
	case "omission":
		return L{M{"name": "criteriaOmission", "props": M{"ratio": 0.34, "min": 1}}}
	case "anchoring":
		return L{M{"name": "anchoring", "props": M{
			"anchoringAlternatives": L{M{"alternative": "v0", "coefficient": 1.0}},
			"referencePoints":       M{"function": "ideal"},
			"gain":                  M{"function": "linear", "params": M{"a": 0.5, "b": 0.0}},
			"loss":                  M{"function": "linear", "params": M{"a": 1.0, "b": 0.0}},
			"applier":               M{"function": "inline", "params": M{"applyOnNotConsidered": false}},
		}}}
	case "concealment":
		return L{M{"name": "criteriaConcealment", "props": M{"randomSeed": 5, "newCriterionImportance": 0.5}}}
	case "mixing":
		return L{M{"name": "criteriaMixing", "props": M{"randomSeed": 7, "mixingRatio": 0.25}}}
	}
	return L{}
}

func c03CritIDs(n int) []string { return []string{"c1", "c2", "c3"}[:n] }

func subsetsOf(ids []string) [][]string {
	var out [][]string
	for m := 1; m < 1<<uint(len(ids)); m++ {
		var s []string
		for i, id := range ids {
			if m&(1<<uint(i)) != 0 {
				s = append(s, id)
			}
		}
		out = append(out, s)
	}
	return out
}

var c03BaseCap = map[string]float64{"c1": 0.25, "c2": 0.25, "c3": 0.5}

// c03Request builds the request; widx = weight menu indices (weightedSum/owa) or capacity menu indices per subset (choquet).
func c03Request(method string, n int, widx []int, types []int, prefix string) M {
	cids := c03CritIDs(n)
	var crits L
	for i, id := range cids {
		t := "gain"
		if types != nil && types[i] == 1 {
			t = "cost"
		}
		if types != nil && types[i] == 2 {
			t = "" // type left out: the documented default is gain
		}
		crits = append(crits, crit(id, t))
	}
	var ka L
	var chose []string
	dims := make([]int, n)
	for i := range dims {
		dims[i] = len(c03Values)
	}
	k := 0
	Product(dims, func(idx []int) {
		cv := map[string]float64{}
		for i, id := range cids {
			cv[id] = c03Values[idx[i]]
		}
		id := fmt.Sprintf("v%d", k)
		k++
		ka = append(ka, alt(id, cv))
		chose = append(chose, id)
	})
	w := M{}
	if method == "choquetIntegral" {
		subs := subsetsOf(cids)
		for i, s := range subs {
			base := 0.0
			for _, c := range s {
				base += c03BaseCap[c]
			}
			if n < 3 && len(s) == n {
				base = 1
			}
			v := base
			if widx[i] > 0 {
				v = c03Caps[widx[i]]
			}
			w[strings.Join(s, ",")] = v
		}
	} else {
		for i, id := range cids {
			w[id] = c03Weights[widx[i]]
		}
	}
	return M{
		"preferenceFunction": method,
		"knownAlternatives":  ka,
		"choseToMake":        strs(chose),
		"criteria":           crits,
		"methodParameters":   M{"weights": w},
		"biases":             c03Bias(prefix),
	}
}

func asM(v interface{}) map[string]interface{} {
	m, _ := v.(map[string]interface{})
	return m
}
func asL(v interface{}) []interface{} {
	l, _ := v.([]interface{})
	return l
}
func asF(v interface{}) float64 {
	switch x := v.(type) {
	case float64:
		return x
	case int:
		return float64(x)
	case int64:
		return float64(x)
	}
	return 0
}
func asS(v interface{}) string {
	s, _ := v.(string)
	return s
}

// effective parameters after the reported biases: criteria types, weights (weight-type methods)
func c03Effective(req M, resp *Response) (types map[string]string, weights map[string]float64, capsKnown bool) {
	types = map[string]string{}
	for _, c := range asL(req["criteria"]) {
		types[asS(asM(c)["id"])] = asS(asM(c)["type"])
	}
	weights = map[string]float64{}
	for k, v := range asM(asM(req["methodParameters"])["weights"]) {
		weights[k] = asF(v)
	}
	capsKnown = true
	for _, b := range resp.Biases {
		p := asM(b["props"])
		if p == nil {
			continue
		}
		for _, o := range asL(p["omittedCriteria"]) {
			id := asS(asM(o)["id"])
			delete(types, id)
			for k := range weights {
				for _, part := range strings.Split(k, ",") {
					if part == id {
						delete(weights, k)
					}
				}
			}
		}
		for _, a := range asL(p["addedCriteria"]) {
			am := asM(a)
			types[asS(am["id"])] = asS(am["type"])
			for k, v := range asM(asM(am["methodParameters"])["weights"]) {
				weights[k] = asF(v)
			}
			capsKnown = false
		}
		if nc := asM(p["newCriterion"]); nc != nil {
			types[asS(nc["id"])] = asS(nc["type"])
			for k, v := range asM(asM(p["params"])["weights"]) {
				weights[k] = asF(v)
			}
			capsKnown = false
		}
	}
	return
}

func refWeightedSum(vals map[string]float64, types map[string]string, w map[string]float64) (weighted, unweighted float64) {
	keys := make([]string, 0, len(types))
	for k := range types {
		keys = append(keys, k)
	}
	sort.Strings(keys)
	for _, k := range keys {
		sg := 1.0
		if types[k] == "cost" {
			sg = -1
		}
		weighted += w[k] * sg * vals[k]
		unweighted += sg * vals[k]
	}
	return
}

func refOWA(vals map[string]float64, types map[string]string, w map[string]float64) float64 {
	var vs, ws []float64
	for k := range types {
		vs = append(vs, vals[k])
		ws = append(ws, w[k])
	}
	sort.Float64s(vs)
	sort.Float64s(ws)
	t := 0.0
	for i := range vs {
		t += vs[i] * ws[i]
	}
	return t
}

// refChoquet: A.2 — ascending values, groups = maximal runs within 1e-5 of the group's first value.
func refChoquet(vals map[string]float64, types map[string]string, caps map[string]float64) (float64, bool) {
	type cv struct {
		c string
		v float64
	}
	var xs []cv
	for k := range types {
		xs = append(xs, cv{k, vals[k]})
	}
	sort.Slice(xs, func(i, j int) bool {
		if xs[i].v != xs[j].v {
			return xs[i].v < xs[j].v
		}
		return xs[i].c < xs[j].c
	})
	total, prev := 0.0, 0.0
	for i := 0; i < len(xs); {
		j := i + 1
		for j < len(xs) && math.Abs(xs[j].v-xs[i].v) <= 1e-5 {
			j++
		}
		var upper []string
		for _, x := range xs[i:] {
			upper = append(upper, x.c)
		}
		sort.Strings(upper)
		mu, ok := caps[strings.Join(upper, ",")]
		if !ok {
			return 0, false
		}
		total += mu * (xs[i].v - prev)
		prev = xs[i].v
		i = j
	}
	return total, true
}

func c03Check(c *Case) []Violation {
	req := asM(roundTrip(c.Req))
	method := asS(req["preferenceFunction"])
	out := Decide(J(c.Req), nil)
	if !out.Accepted {
		// combinations that die are C07's subject (bias x method), not C03's — unless no bias is involved
		if len(asL(req["biases"])) == 0 {
			return []Violation{viol(c, "C03/rejected", "valid %s request without biases rejected: %s", method, out.Err)}
		}
		stat("skipped_rejected_bias_combination/" + method)
		return nil
	}
	resp, err := ParseResponse(out.Body)
	if err != nil {
		return []Violation{viol(c, "C03/unparsable", "%v", err)}
	}
	types, weights, capsKnown := c03Effective(req, resp)
	var vs []Violation
	// the criteria values shown with each result entry are the ones the alternative was evaluated on: when the last bias
	// is a fatigue, they are digit for digit the values that bias reports to have handed on
	if n := len(resp.Biases); n > 0 && asS(resp.Biases[n-1]["name"]) == "fatigue" {
		handed := map[string]map[string]interface{}{}
		for _, a := range asL(asM(resp.Biases[n-1]["props"])["consideredAlternatives"]) {
			handed[asS(asM(a)["id"])] = asM(asM(a)["criteria"])
		}
		for _, e := range resp.Result {
			for k, v := range handed[e.Alternative.ID] {
				if rv, has := e.Alternative.Criteria[k]; !has || rv != asF(v) {
					vs = append(vs, viol(c, "C03/"+method+"/shown-values-not-evaluated-values", "result entry %s shows %s=%v, the last bias handed on %v", e.Alternative.ID, k, e.Alternative.Criteria[k], v))
					break
				}
			}
		}
	}
	for _, e := range resp.Result {
		if _, isNum := e.Evaluation["value"].(float64); !isNum {
			vs = append(vs, viol(c, "C03/"+method+"/value-not-reported", "alternative %s: the evaluation %v carries no numeric value", e.Alternative.ID, e.Evaluation))
			continue
		}
		got := asF(e.Evaluation["value"])
		vals := e.Alternative.Criteria
		for k := range types {
			if _, ok := vals[k]; !ok {
				vs = append(vs, viol(c, "C03/"+method+"/missing-final-value", "result entry %s has no value for criterion %s", e.Alternative.ID, k))
			}
		}
		var ref float64
		switch method {
		case "weightedSum":
			var unw float64
			ref, unw = refWeightedSum(vals, types, weights)
			if math.Abs(got-round8(ref)) > c03Tol(ref) {
				if math.Abs(got-round8(unw)) <= c03Tol(unw) {
					vs = append(vs, viol(c, "C03/weightedSum/ignores-weights", "alternative %s: value %v equals the unweighted signed sum %v, not sum(weight*signed value) = %v", e.Alternative.ID, got, unw, ref))
				} else {
					vs = append(vs, viol(c, "C03/weightedSum/value", "alternative %s: value %v, expected %v (values %v weights %v)", e.Alternative.ID, got, ref, vals, weights))
				}
			}
			continue
		case "owa":
			ref = refOWA(vals, types, weights)
		case "choquetIntegral":
			if !capsKnown {
				stat("skipped_choquet_capacities_not_reported")
				continue
			}
			var ok bool
			ref, ok = refChoquet(vals, types, weights)
			if !ok {
				continue
			}
		}
		if math.Abs(got-round8(ref)) > c03Tol(ref) {
			vs = append(vs, viol(c, "C03/"+method+"/value", "alternative %s: value %v, expected %v (values %v parameters %v)", e.Alternative.ID, got, ref, vals, weights))
		}
	}
	return vs
}

func roundTrip(v interface{}) interface{} {
	var o interface{}
	if err := jsonUnmarshal(J(v), &o); err != nil {
		panic(err)
	}
	return o
}

// c03Large: values of large magnitude: near-ties that are far apart in absolute terms (1000 vs 1000.004: not tied under
// the absolute 1e-5 rule) and aggregates beyond 2^63*1e-8.
// c03Neighbours: alternatives whose aggregate loses low-order bits (1e16 + 1, 1e9 + 3e-8) listed right before small
// ones and before twins of them, in several listing orders: nothing computed for one alternative may leak into the next.
func c03Neighbours(s *Shard) {
	rows := map[string][]float64{"a": {1e16, 1}, "b": {5, 3}, "c": {5, 3}, "d": {1e9, 3e-8}, "e": {2, 2}, "f": {-1e16, 0.5}, "g": {0.25, 0.125}}
	orders := [][]string{{"a", "b", "c", "d", "e", "f", "g"}, {"g", "f", "e", "d", "c", "b", "a"}, {"b", "a", "c", "f", "g", "d", "e"}, {"d", "e", "a", "g", "f", "c", "b"}}
	for _, method := range utilMethods {
		for _, order := range orders {
			for _, chose := range orders {
				if !s.Take() {
					continue
				}
				var ka L
				for _, id := range order {
					ka = append(ka, alt(id, map[string]float64{"c1": rows[id][0], "c2": rows[id][1]}))
				}
				w := M{"c1": 1.0, "c2": 1.0}
				if method == "owa" {
					w = M{"c1": 0.5, "c2": 0.5}
				}
				if method == "choquetIntegral" {
					w = M{"c1": 0.5, "c2": 0.5, "c1,c2": 1.0}
				}
				req := M{"preferenceFunction": method, "knownAlternatives": ka, "choseToMake": strs(chose), "criteria": L{crit("c1", "gain"), crit("c2", "gain")}, "methodParameters": M{"weights": w}}
				c := &Case{Prop: "C03", Kind: "request", Req: req}
				s.Evals++
				s.Begin(c)
				s.Report(c03Check(c))
				s.Outcome(true, method, "neighbours", fmt.Sprint(order, chose))
			}
		}
	}
}

// c03NearWeights: OWA / weighted-sum weights that differ by less than any tolerance used elsewhere in the library, the
// larger one on the lexicographically smaller id and the other way round; values that differ at those ranks.
func c03NearWeights(s *Shard) {
	for _, method := range []string{"owa", "weightedSum"} {
		for wi, ws := range [][]float64{{0.333334, 0.333333, 0.333333}, {0.333333, 0.333333, 0.333334}, {0.333333, 0.333334, 0.333333}, {0.5000004, 0.5, 0.4999996},
			{0.000004, 0.5, 0.499996}, {1, -0.000002, 0.000001}} { // the last two: weights that are tiny but not zero
			if !s.Take() {
				continue
			}
			var ka L
			var chose []string
			k := 0
			Product([]int{3, 3, 3}, func(idx []int) {
				id := fmt.Sprintf("v%02d", k)
				k++
				ka = append(ka, alt(id, map[string]float64{"c1": float64(idx[0]) * 10, "c2": float64(idx[1])*10 + 1, "c3": float64(idx[2])*10 + 2}))
				chose = append(chose, id)
			})
			req := M{"preferenceFunction": method, "knownAlternatives": ka, "choseToMake": strs(chose), "criteria": L{crit("c1", "gain"), crit("c2", "gain"), crit("c3", "gain")},
				"methodParameters": M{"weights": M{"c1": ws[0], "c2": ws[1], "c3": ws[2]}}}
			for _, prefix := range []string{"none", "fatigue"} {
				r := M{}
				for kk, v := range req {
					r[kk] = v
				}
				if prefix == "fatigue" {
					r["biases"] = L{bias("fatigue", M{"function": "const", "params": M{"value": 0.25}, "randomSeed": 2})}
				}
				c := &Case{Prop: "C03", Kind: "request", Req: r}
				s.Evals++
				s.Begin(c)
				s.Report(c03Check(c))
				s.Outcome(true, method, "near-weights", wi, prefix)
			}
		}
	}
}

func c03Large(s *Shard) {
	c03Neighbours(s)
	c03NearWeights(s)
	big := []float64{1000, 1000.004, 2000, 1e11, -1e11, 3}
	for _, method := range utilMethods {
		for n := 2; n <= 3; n++ {
			if !s.Take() {
				continue
			}
			cids := c03CritIDs(n)
			var crits L
			for _, id := range cids {
				crits = append(crits, crit(id, "gain"))
			}
			var ka L
			var chose []string
			dims := make([]int, n)
			for i := range dims {
				dims[i] = len(big)
			}
			k := 0
			Product(dims, func(idx []int) {
				cv := map[string]float64{}
				for i, id := range cids {
					cv[id] = big[idx[i]]
				}
				id := fmt.Sprintf("v%d", k)
				k++
				ka = append(ka, alt(id, cv))
				chose = append(chose, id)
			})
			w := M{}
			if method == "choquetIntegral" {
				for _, sub := range subsetsOf(cids) {
					w[strings.Join(sub, ",")] = float64(len(sub)) / float64(n+1) * 0.75
				}
			} else {
				for i, id := range cids {
					w[id] = []float64{1, 0.5, 2}[i]
				}
			}
			req := M{"preferenceFunction": method, "knownAlternatives": ka, "choseToMake": strs(chose), "criteria": crits, "methodParameters": M{"weights": w}}
			c := &Case{Prop: "C03", Kind: "request", Req: req}
			s.Evals++
			s.Begin(c)
			s.Report(c03Check(c))
			s.Outcome(true, method, "large", n)
		}
	}
}

// c03Wide: many criteria (the other dimension of size): 7 and 8 for Choquet (127 / 255 capacities, additive and
// non-additive monotone), 13 and 21 for weighted sum and OWA (mixed gain/cost for the weighted sum), value vectors with
// ties, rotations and a strictly ordered one; alone and after an omission / a fatigue.
func c03Wide(s *Shard) {
	for _, method := range utilMethods {
		sizes := []int{13, 21}
		if method == "choquetIntegral" {
			sizes = []int{7, 8}
		}
		for _, n := range sizes {
			for shape := 0; shape < 3; shape++ {
				for _, prefix := range []string{"none", "omission", "fatigue"} {
					if !s.Take() {
						continue
					}
					cids := make([]string, n)
					for i := range cids {
						cids[i] = fmt.Sprintf("k%02d", (i*5)%n) // declared in a scrambled order
					}
					var crits L
					for i, id := range cids {
						t := "gain"
						if method == "weightedSum" && i%3 == 1 {
							t = "cost"
						}
						crits = append(crits, crit(id, t))
					}
					var ka L
					var chose []string
					for a := 0; a < 4; a++ {
						cv := map[string]float64{}
						for i, id := range cids {
							switch shape {
							case 0:
								cv[id] = float64((i*(a+2))%n) / 4 // a permutation-like spread, different per alternative
							case 1:
								cv[id] = float64((i + a) % 3) // many ties
							default:
								cv[id] = float64(i+1) * (1 + float64(a)/8) // strictly ordered
							}
						}
						id := fmt.Sprintf("w%d", a)
						ka = append(ka, alt(id, cv))
						chose = append(chose, id)
					}
					w := M{}
					if method == "choquetIntegral" {
						for _, sub := range subsetsOf(cids) {
							f := float64(len(sub)) / float64(n)
							if shape == 1 {
								f = f * f // non-additive, monotone
							}
							w[strings.Join(sub, ",")] = f
						}
					} else {
						for i, id := range cids {
							w[id] = float64((i*7)%n+1) / 8
						}
					}
					req := M{"preferenceFunction": method, "knownAlternatives": ka, "choseToMake": strs(chose), "criteria": crits, "methodParameters": M{"weights": w}, "biasApplyRandomSeed": 1}
					switch prefix {
					case "omission":
						req["biases"] = L{bias("criteriaOmission", M{"ratio": 0.34})}
					case "fatigue":
						req["biases"] = L{bias("fatigue", M{"function": "const", "params": M{"value": 0.25}, "randomSeed": 2})}
					}
					c := &Case{Prop: "C03", Kind: "request", Req: req}
					s.Evals++
					s.Begin(c)
					s.Report(c03Check(c))
					s.Count("requests/"+method+"/wide", 1)
					s.Outcome(true, method, "wide", n, shape, prefix)
				}
			}
		}
	}
}

func c03Run(s *Shard) {
	cur = s
	c03Large(s)
	c03Wide(s)
	for _, method := range utilMethods {
		for n := 1; n <= 3; n++ {
			for _, prefix := range c03Prefixes {
				if n == 1 && strings.Contains(prefix, "omission") {
					continue // would remove every criterion: outside the domain
				}
				var wdims []int
				if method == "choquetIntegral" {
					wdims = make([]int, (1<<uint(n))-1)
					for i := range wdims {
						wdims[i] = len(c03Caps)
					}
				} else {
					wdims = make([]int, n)
					for i := range wdims {
						wdims[i] = len(c03Weights)
					}
				}
				tdims := make([]int, n)
				for i := range tdims {
					tdims[i] = 1
					if method == "weightedSum" {
						tdims[i] = 3 // gain, cost, type left out (= gain)
					}
				}
				run := func(widx []int) {
					Product(tdims, func(tidx []int) {
						if !s.Take() {
							return
						}
						c := &Case{Prop: "C03", Kind: "request", Req: c03Request(method, n, widx, tidx, prefix)}
						s.Evals++
						s.Begin(c)
						vs := c03Check(c)
						s.Report(vs)
						s.Count("requests/"+method+"/"+prefix, 1)
						s.Outcome(true, method, prefix, fmt.Sprint(n, widx, tidx))
						if n == 2 && prefix == "fatigue" && len(s.Samples) < 1 {
							small := c03Request(method, 1, widx[:1], tidx[:1], prefix)
							s.Sample(M{"request_shape(n=1 shown; n=2 explored)": small})
						}
					})
				}
				if method == "choquetIntegral" && (quick(s) || n < 3) && n > 1 {
					d := 2
					Deviations(wdims, d, func(idx []int) { run(append([]int{}, idx...)) })
				} else if method == "choquetIntegral" && n == 3 {
					if prefix != "none" {
						Deviations(wdims, 2, func(idx []int) { run(append([]int{}, idx...)) })
					} else {
						Product(wdims, func(idx []int) { run(append([]int{}, idx...)) })
					}
				} else {
					Product(wdims, func(idx []int) { run(append([]int{}, idx...)) })
				}
			}
		}
	}
	s.Bounds["criteria"] = "1..3"
	s.Bounds["values"] = c03Values
	s.Bounds["weights"] = c03Weights
}

// c03Tol: the API's 1e-8 rounding plus a few ulps of the aggregate itself (large magnitudes).
func c03Tol(ref float64) float64 { return 2e-8 + 8e-16*math.Abs(ref) }
