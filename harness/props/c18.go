package props

import (
	"fmt"
	"math"
	"sort"
	"strings"

	. "rdmverif/engine"
	"rdmverif/svc"
)

// C18 — concealed and mixed criteria are well-formed additions (DESIGN.md 6.C18, A.11, A.12).

func init() {
	Register(&Property{
		ID: "C18", Level: "exploration",
		Rule: "E1/E2: 7 methods x {considered = known, subset} x valuesRange {observed, declared, observed with one strictly negative criterion} x start state {root, after each core bias, after 1-2 earlier concealments/mixings, after two omissions (one criterion left)} x " +
			"concealment {3 reference strategies (importance 0/0.5/1), newCriterionScaling {1,0.5,2,-1}, bounding {off, 1, non-negative, 0.5+non-negative}} / mixing {mixingRatio {0,0.25,0.5,1}, 3 strategies} " +
			"x generator {constant scripts g in {0,0.25,0.5,0.75,1-ulp}, real seed}. One real Apply per case. Oracle: exactly one new gain criterion with an unused id appended, a value for every known alternative, " +
			"old values untouched, range = reference criterion's range scaled about its centre (existential over the existing criteria; exact reference criterion on root states), exact values under constant scripts, " +
			"containment otherwise, weight = g*w_ref for weight-type methods (root states), mixing formula on the report's own components, components recomputed from the current state, no-op below two criteria. " +
			"distinct_nontrivial = distinct (start state, options, script) in which a criterion was added.",
		Assume: []string{"newCriterionScaling < 0 is explored without range bounding (clipping into an inverted range is not defined by the statement)",
			"reference-criterion choice is checked exactly on root states (documented importance), existentially elsewhere"},
		Run:   c18Run,
		Check: c18Check,
	})
}

func c18Script(c *Case) *svc.Script {
	if g, ok := c.Params["g"]; ok && asF(g) >= 0 {
		return ConstScript(asF(g))
	}
	return nil
}

// expected reference criterion on a root state (ascending importance ranking, stable)
func expectedReference(req M, props map[string]interface{}, g float64, scripted bool) (string, bool) {
	imp := rootImportance(req)
	if imp == nil {
		return "", false
	}
	ids := critIDs(3)
	sort.SliceStable(ids, func(i, j int) bool { return imp[ids[i]] < imp[ids[j]] })
	typ := asS(props["referenceCriterionType"])
	switch typ {
	case "", "importanceRatio":
		total := 0.0
		for _, id := range ids {
			total += imp[id]
		}
		want := asF(props["newCriterionImportance"]) * total
		cum := 0.0
		for _, id := range ids {
			cum += imp[id]
			if cum >= want {
				return id, true
			}
		}
		return ids[len(ids)-1], true
	case "randomUniform":
		if !scripted {
			return "", false
		}
		return ids[int(math.Floor(g*float64(len(ids))))], true
	case "randomWeighted":
		if !scripted {
			return "", false
		}
		minI := math.MaxFloat64
		for _, id := range ids {
			if imp[id] < minI {
				minI = imp[id]
			}
		}
		total := 0.0
		for _, id := range ids {
			total += minI / imp[id]
		}
		cum := 0.0
		for _, id := range ids {
			cum += minI / imp[id]
			if cum >= g*total {
				return id, true
			}
		}
		return ids[len(ids)-1], true
	}
	return "", false
}

func rootWeight(req M, id string) (float64, bool) {
	mp := asM(req["methodParameters"])
	switch asS(req["preferenceFunction"]) {
	case "weightedSum", "majorityHeuristic", "aspectEliminationHeuristic":
		v, ok := asM(mp["weights"])[id]
		return asF(v), ok
	case "electreIII":
		e := asM(asM(mp["electreCriteria"])[id])
		if e == nil {
			return 0, false
		}
		return asF(e["k"]), true
	}
	return 0, false
}

func addedWeight(method string, mparams map[string]interface{}, id string) (float64, bool) {
	switch method {
	case "weightedSum", "majorityHeuristic", "aspectEliminationHeuristic", "owa":
		v, ok := asM(mparams["weights"])[id]
		return asF(v), ok
	case "electreIII":
		e := asM(asM(mparams["criteria"])[id])
		if e == nil {
			return 0, false
		}
		return asF(e["k"]), true
	}
	return 0, false
}

func c18Check(c *Case) []Violation {
	req := asM(roundTrip(c.Req))
	bs := asL(req["biases"])
	last := asM(bs[len(bs)-1])
	props := camelKeys(asM(last["props"]))
	script := c18Script(c)
	t := lastTransition(req, script)
	if t.err != nil {
		if t.failAt >= 0 && t.failAt < len(bs)-1 {
			stat("prefix_failed(C07's subject)")
			return nil
		}
		return []Violation{viol(c, "C18/rejected/"+asS(last["name"]), "%s failed: %v", asS(last["name"]), t.err)}
	}
	if v := alteredReport(c, "C18", asS(last["name"]), t, bs); v != nil {
		return v
	}
	if asS(last["name"]) == "criteriaMixing" {
		return c18Mixing(c, req, props, t, script != nil)
	}
	return c18Concealment(c, req, props, t, script != nil)
}

// common part: exactly one new gain criterion appended, fresh id, values for all, old values untouched
func c18Common(c *Case, tag string, t trans, newID string) []Violation {
	var vs []Violation
	prev, next := t.prev, t.next
	if len(next.Criteria) != len(prev.Criteria)+1 || !critsEqual(prev.Criteria, next.Criteria[:len(prev.Criteria)]) {
		return []Violation{viol(c, "C18/"+tag+"/criteria", "criteria after the bias %v are not the previous criteria %v plus one appended criterion", next.CritIDs(), prev.CritIDs())}
	}
	nc := next.Criteria[len(next.Criteria)-1]
	if nc.ID != newID {
		vs = append(vs, viol(c, "C18/"+tag+"/reported-id", "report names the new criterion %q, the state has %q", newID, nc.ID))
	}
	if nc.Cost {
		vs = append(vs, viol(c, "C18/"+tag+"/not-gain", "new criterion %s is not a gain criterion", nc.ID))
	}
	for _, a := range prev.All() {
		if _, used := a.Values[nc.ID]; used {
			vs = append(vs, viol(c, "C18/"+tag+"/id-in-use", "new criterion id %q was already used (alternative %s has a value for it)", nc.ID, a.ID))
		}
	}
	if _, used := prev.Crit(nc.ID); used {
		vs = append(vs, viol(c, "C18/"+tag+"/id-in-use", "new criterion id %q is the id of an existing criterion", nc.ID))
	}
	for _, a := range prev.All() {
		nv := prevValues(next, a.ID)
		if _, ok := nv[nc.ID]; !ok {
			vs = append(vs, viol(c, "C18/"+tag+"/value-missing", "alternative %s has no value for the new criterion %s", a.ID, nc.ID))
		}
		if len(nv) != len(a.Values)+1 {
			vs = append(vs, viol(c, "C18/"+tag+"/value-set", "alternative %s has %d values after the bias, expected the %d old ones plus one", a.ID, len(nv), len(a.Values)))
		}
	}
	if where, ok := valuesUnchangedExcept(prev, next, nil); !ok {
		vs = append(vs, viol(c, "C18/"+tag+"/old-value-changed", "existing value %s changed", where))
	}
	if !sameStrings(altIDs(prev.Considered), altIDs(next.Considered)) || !sameStrings(altIDs(prev.NotConsidered), altIDs(next.NotConsidered)) {
		vs = append(vs, viol(c, "C18/"+tag+"/split-changed", "considered/not considered changed"))
	}
	// the parameters are EXTENDED: every entry and option they had before (weights of the old criteria, draw policy,
	// current choice, seeds, level function and its coefficients, thresholds of the old criteria ...) is still there
	// with the same value. Positional parameter sets (OWA weights, Choquet capacities) are re-indexed by design: skipped.
	switch asS(asM(c.Req)["preferenceFunction"]) {
	case "owa", "choquetIntegral":
	default:
		var lost []string
		for path, v := range prev.ParamLeaves {
			if strings.HasSuffix(path, "#len") {
				continue
			}
			if i := strings.IndexAny(path, "{["); i >= 0 {
				// a container: compare only when the next parameters keep it in the same representation (the level
				// functions replace the request's raw parameter map by a typed value — not a loss)
				same := false
				for np := range next.ParamLeaves {
					if strings.HasPrefix(np, path[:i+1]) {
						same = true
						break
					}
				}
				if !same {
					stat("params_container_changed_representation")
					continue
				}
			}
			if nv, ok := next.ParamLeaves[path]; !ok || nv != v {
				lost = append(lost, fmt.Sprintf("%s: %s -> %s", path, v, next.ParamLeaves[path]))
			}
		}
		if len(lost) > 0 {
			sort.Strings(lost)
			vs = append(vs, viol(c, "C18/"+tag+"/params-not-an-extension", "method parameters after the addition are not the previous ones plus entries for the new criterion: %v", lost))
		}
	}
	return vs
}

func c18Concealment(c *Case, req M, props map[string]interface{}, t trans, scripted bool) []Violation {
	prev, next := t.prev, t.next
	added := asL(t.props["addedCriteria"])
	if len(added) != 1 {
		return []Violation{viol(c, "C18/concealment/report", "concealment reports %d added criteria", len(added))}
	}
	ac := asM(added[0])
	newID := asS(ac["id"])
	vs := c18Common(c, "concealment", t, newID)
	if len(vs) > 0 {
		return vs
	}
	nc := next.Criteria[len(next.Criteria)-1]
	vr := asM(ac["valuesRange"])
	rlo, rhi := asF(vr["min"]), asF(vr["max"])
	if !nc.HasRange || nc.Lo != rlo || nc.Hi != rhi || asS(ac["type"]) != "gain" {
		vs = append(vs, viol(c, "C18/concealment/report-range", "report says type %v range [%v,%v]; the criterion handed on has range declared=%v [%v,%v]", ac["type"], rlo, rhi, nc.HasRange, nc.Lo, nc.Hi))
	}
	scaling := 1.0
	if v, ok := props["newCriterionScaling"]; ok {
		scaling = asF(v)
	}
	// reference criterion: one of the existing criteria whose range scaled about its centre is the new range
	var cands []string
	for _, pc := range prev.Criteria {
		lo, hi := prev.Range(pc)
		slo, shi := scaleAbout(lo, hi, scaling)
		if near(slo, rlo) && near(shi, rhi) {
			cands = append(cands, pc.ID)
		}
	}
	if len(cands) == 0 {
		vs = append(vs, viol(c, "C18/concealment/range-not-from-existing-criterion", "new range [%v,%v] is not the range of any existing criterion %v scaled about its centre by %v", rlo, rhi, prev.CritIDs(), scaling))
		return vs
	}
	g := asF(c.Params["g"])
	if len(asL(req["biases"])) == 1 {
		if want, ok := expectedReference(req, props, g, scripted); ok && !contains(cands, want) {
			vs = append(vs, viol(c, "C18/concealment/reference-criterion", "strategy %v should choose reference criterion %s, the new range [%v,%v] matches only %v", props["referenceCriterionType"], want, rlo, rhi, cands))
		}
	}
	bscaling, nonneg := boundingOf(props)
	av := asM(ac["alternativesValues"])
	for _, a := range next.All() {
		v := a.Values[nc.ID]
		if rv, ok := av[a.ID]; !ok || asF(rv) != v {
			vs = append(vs, viol(c, "C18/concealment/report-values", "report lists %v for alternative %s, the value handed on is %v", av[a.ID], a.ID, v))
		}
		if scripted {
			want := boundRef(g*(rhi-rlo)+rlo, rlo, rhi, bscaling, nonneg)
			if !near(v, want) {
				vs = append(vs, viol(c, "C18/concealment/value", "alternative %s: concealed value %v, expected bound(min'+g*(max'-min')) = %v (g=%v range [%v,%v])", a.ID, v, want, g, rlo, rhi))
			}
		} else {
			// raw values lie in the scaled reference range; bounding is monotone, so the handed-on value lies between the
			// bounded ends of that range (raise to 0 first, then clip — the clip may bring it below 0 again)
			lo, hi := boundRef(math.Min(rlo, rhi), rlo, rhi, bscaling, nonneg), boundRef(math.Max(rlo, rhi), rlo, rhi, bscaling, nonneg)
			if v < lo-1e-9 || v > hi+1e-9 {
				vs = append(vs, viol(c, "C18/concealment/value-outside-range", "alternative %s: concealed value %v outside the scaled reference range [%v,%v]", a.ID, v, lo, hi))
			}
		}
	}
	if len(av) != len(next.All()) {
		vs = append(vs, viol(c, "C18/concealment/report-values", "report lists %d alternatives, %d known", len(av), len(next.All())))
	}
	vs = append(vs, c18Weight(c, "concealment", req, asM(ac["methodParameters"]), newID, cands, g, scripted)...)
	if prev.Params == next.Params && asS(req["preferenceFunction"]) != "satisfactionHeuristic" {
		vs = append(vs, viol(c, "C18/concealment/params-not-extended", "method parameters are unchanged although a criterion was added"))
	}
	if cur != nil {
		cur.Outcome(true, prev.Canon(), fmt.Sprint(props), g)
	}
	return vs
}

// c18Levels: with explicit per-step thresholds the new criterion gets exactly one threshold per step, and the series runs
// in the method's own direction (satisfaction lowers its expectations step by step, aspect elimination raises them).
func c18Levels(c *Case, tag string, req M, mparams map[string]interface{}, newID string, cands []string, g float64, scripted bool) []Violation {
	method := asS(req["preferenceFunction"])
	rmp := asM(req["methodParameters"])
	if (method != "satisfactionHeuristic" && method != "aspectEliminationHeuristic") || asS(rmp["function"]) != "thresholds" {
		return nil
	}
	steps := asL(asM(rmp["params"])["thresholds"])
	got := asL(asM(mparams["params"])["thresholds"])
	if len(got) != len(steps) {
		return []Violation{viol(c, "C18/"+tag+"/levels-count", "%d thresholds reported for the new criterion %s, the method has %d steps (%v)", len(got), newID, len(steps), mparams)}
	}
	var vals []float64
	for k, e := range got {
		v, ok := asM(e)[newID]
		if !ok || len(asM(e)) != 1 || math.IsNaN(asF(v)) || math.IsInf(asF(v), 0) {
			return []Violation{viol(c, "C18/"+tag+"/levels-entry", "step %d: reported thresholds %v do not carry exactly one finite value for %s", k, e, newID)}
		}
		vals = append(vals, asF(v))
	}
	for k := 1; k < len(vals); k++ {
		if (method == "satisfactionHeuristic" && vals[k] > vals[k-1]) || (method == "aspectEliminationHeuristic" && vals[k] < vals[k-1]) {
			return []Violation{viol(c, "C18/"+tag+"/levels-direction", "%s: thresholds %v of the new criterion %s run against the method's direction", method, vals, newID)}
		}
	}
	if len(asL(req["biases"])) != 1 {
		return nil
	}
	// the multiset is {g_k x reference threshold of step k}
	okAny := false
	for _, rc := range cands {
		var want []float64
		for _, st := range steps {
			rv, has := asM(st)[rc]
			if !has {
				return nil
			}
			want = append(want, asF(rv))
		}
		// every value lies between 0 and its reference, so the k-th smallest value lies between the k-th smallest of
		// min(reference,0) and the k-th smallest of max(reference,0)
		sv, sw, hi, lo := append([]float64{}, vals...), []float64{}, []float64{}, []float64{}
		for _, r := range want {
			sw = append(sw, g*r)
			hi = append(hi, math.Max(r, 0))
			lo = append(lo, math.Min(r, 0))
		}
		sort.Float64s(sv)
		sort.Float64s(sw)
		sort.Float64s(hi)
		sort.Float64s(lo)
		fits := true
		for k := range sv {
			if scripted && !near(sv[k], sw[k]) {
				fits = false
			}
			if !scripted && (sv[k] > hi[k] || sv[k] < lo[k]) {
				fits = false
			}
		}
		if fits {
			okAny = true
		}
	}
	if !okAny {
		return []Violation{viol(c, "C18/"+tag+"/levels-values", "thresholds %v of the new criterion are not fractions (g=%v) of a reference criterion's thresholds (candidates %v, steps %v)", vals, g, cands, steps)}
	}
	return nil
}

func c18Weight(c *Case, tag string, req M, mparams map[string]interface{}, newID string, cands []string, g float64, scripted bool) []Violation {
	if vs := c18Levels(c, tag, req, mparams, newID, cands, g, scripted); len(vs) > 0 {
		return vs
	}
	method := asS(req["preferenceFunction"])
	w, ok := addedWeight(method, mparams, newID)
	if !ok {
		if method == "weightedSum" || method == "majorityHeuristic" || method == "aspectEliminationHeuristic" || method == "electreIII" || method == "owa" {
			return []Violation{viol(c, "C18/"+tag+"/weight-not-reported", "the report's method parameters %v carry no weight for the new criterion %s", mparams, newID)}
		}
		return nil
	}
	if len(asL(req["biases"])) != 1 || method == "owa" {
		return nil
	}
	okAny := false
	var wants []float64
	for _, rc := range cands {
		rw, has := rootWeight(req, rc)
		if !has {
			return nil
		}
		wants = append(wants, rw)
		if scripted && near(w, g*rw) {
			okAny = true
		}
		if !scripted && ((w >= 0 && w < rw) || (rw == 0 && w == 0) || (rw < 0 && w <= 0 && w > rw)) {
			okAny = true
		}
	}
	if !okAny {
		return []Violation{viol(c, "C18/"+tag+"/weight", "new criterion's weight %v is not a fraction g=%v (in [0,1)) of the reference criterion's weight (candidates %v with weights %v)", w, g, cands, wants)}
	}
	return nil
}

func c18Mixing(c *Case, req M, props map[string]interface{}, t trans, scripted bool) []Violation {
	prev, next := t.prev, t.next
	if len(prev.Criteria) < 2 {
		if prev.Canon() != next.Canon() || t.props != nil {
			return []Violation{viol(c, "C18/mixing/not-noop-below-two-criteria", "mixing with %d criteria changed the state or reported props %v", len(prev.Criteria), t.props)}
		}
		stat("mixing_noop_below_two_criteria")
		return nil
	}
	c1, c2, ncr := asM(t.props["component1"]), asM(t.props["component2"]), asM(t.props["newCriterion"])
	if c1 == nil || c2 == nil || ncr == nil {
		return []Violation{viol(c, "C18/mixing/report", "mixing report lacks components: %v", t.props)}
	}
	newID := asS(ncr["id"])
	vs := c18Common(c, "mixing", t, newID)
	if len(vs) > 0 {
		return vs
	}
	id1, id2 := asS(c1["id"]), asS(c2["id"])
	k1, ok1 := prev.Crit(id1)
	k2, ok2 := prev.Crit(id2)
	if !ok1 || !ok2 || id1 == id2 {
		return append(vs, viol(c, "C18/mixing/components", "components %q and %q are not two distinct existing criteria %v", id1, id2, prev.CritIDs()))
	}
	nc := next.Criteria[len(next.Criteria)-1]
	if !nc.HasRange || nc.Lo != 0 {
		vs = append(vs, viol(c, "C18/mixing/range", "mixed criterion range declared=%v [%v,%v], expected [0,T]", nc.HasRange, nc.Lo, nc.Hi))
	}
	T := nc.Hi
	var cands []string
	for _, pc := range prev.Criteria {
		lo, hi := prev.Range(pc)
		if near(T, math.Max(math.Max(math.Abs(lo), math.Abs(hi)), hi-lo)) {
			cands = append(cands, pc.ID)
		}
	}
	if len(cands) == 0 {
		vs = append(vs, viol(c, "C18/mixing/T-not-from-existing-criterion", "T=%v is not max(|min|,|max|,max-min) of any existing criterion", T))
	}
	g := asF(c.Params["g"])
	if len(asL(req["biases"])) == 1 {
		if want, ok := expectedReference(req, props, g, scripted); ok && len(cands) > 0 && !contains(cands, want) {
			vs = append(vs, viol(c, "C18/mixing/reference-criterion", "strategy %v should choose reference criterion %s, T=%v matches only %v", props["referenceCriterionType"], want, T, cands))
		}
	}
	m := 0.5
	if v, ok := props["mixingRatio"]; ok {
		m = asF(v)
	}
	scaled := func(k StateCrit, v float64) float64 {
		lo, hi := prev.Range(k)
		sc := 0.0
		if hi-lo != 0 {
			sc = T / (hi - lo)
		}
		if k.Cost {
			return (hi - v) * sc
		}
		return (v - lo) * sc
	}
	s1, s2, sn := asM(c1["scaledValues"]), asM(c2["scaledValues"]), asM(ncr["scaledValues"])
	typeOf := func(k StateCrit) string {
		if k.Cost {
			return "cost"
		}
		return "gain"
	}
	_ = typeOf
	// a criterion declared without a type is echoed without one; what matters is whether it is reported as a cost criterion
	if (asS(c1["type"]) == "cost") != k1.Cost || (asS(c2["type"]) == "cost") != k2.Cost || asS(ncr["type"]) != "gain" {
		vs = append(vs, viol(c, "C18/mixing/report-types", "reported types %v/%v/%v", c1["type"], c2["type"], ncr["type"]))
	}
	for _, a := range prev.All() {
		w1, w2 := scaled(k1, a.Values[id1]), scaled(k2, a.Values[id2])
		if !near(asF(s1[a.ID]), w1) || !near(asF(s2[a.ID]), w2) {
			vs = append(vs, viol(c, "C18/mixing/rescaled-components", "alternative %s: reported rescaled components (%v,%v), recomputed from the current values (%v,%v) over [0,%v]", a.ID, s1[a.ID], s2[a.ID], w1, w2, T))
		}
		r1, r2 := asF(s1[a.ID]), asF(s2[a.ID])
		mixed := r1*m + r2*(1-m)
		got := prevValues(next, a.ID)[nc.ID]
		if !near(got, mixed) || !near(asF(sn[a.ID]), got) {
			vs = append(vs, viol(c, "C18/mixing/formula", "alternative %s: mixed value %v (reported %v), expected mixingRatio*c1+(1-mixingRatio)*c2 = %v (m=%v, components %v, %v)", a.ID, got, sn[a.ID], mixed, m, r1, r2))
		}
		if got < math.Min(r1, r2)-1e-9 || got > math.Max(r1, r2)+1e-9 {
			vs = append(vs, viol(c, "C18/mixing/not-between", "alternative %s: mixed value %v is not between the components %v and %v", a.ID, got, r1, r2))
		}
	}
	vs = append(vs, c18Weight(c, "mixing", req, asM(t.props["params"]), newID, cands, g, scripted)...)
	if cur != nil {
		cur.Outcome(true, prev.Canon(), fmt.Sprint(props), g)
	}
	return vs
}

func c18Run(s *Shard) {
	cur = s
	gs := []float64{0, 0.25, 0.5, 0.75, 1 - 1.0/(1<<53), -1}
	var prefixes [][]M
	prefixes = append(prefixes, nil)
	for _, b := range biasAlphabet(0) {
		prefixes = append(prefixes, []M{b})
	}
	conc := bias("criteriaConcealment", refStrategy(M{"randomSeed": 3}, 1))
	mix := bias("criteriaMixing", refStrategy(M{"randomSeed": 7, "mixingRatio": 0.5}, 0))
	om := bias("criteriaOmission", M{"ratio": 0.5})
	prefixes = append(prefixes, []M{conc, conc}, []M{mix, mix}, []M{conc, mix}, []M{om, om})
	prefixes = append(prefixes, ownPrefixes(conc)[:4]...)
	prefixes = append(prefixes, ownPrefixes(mix)[:4]...)
	var variants []M
	for strat := 0; strat < 3; strat++ {
		imps := []float64{0.5}
		if strat == 0 {
			imps = []float64{0, 0.5, 1}
		}
		for _, imp := range imps {
			for _, sc := range []float64{1, 0.5, 2, -1} {
				for b := 0; b < 5; b++ {
					if sc < 0 && (b == 1 || b == 3) {
						continue
					}
					p := withBounding(refStrategy(M{"randomSeed": 3, "newCriterionScaling": sc}, strat), b)
					if strat == 0 {
						p["newCriterionImportance"] = imp
					}
					variants = append(variants, bias("criteriaConcealment", p))
				}
			}
			for _, mr := range []float64{0, 0.25, 0.5, 1} {
				p := refStrategy(M{"randomSeed": 7, "mixingRatio": mr}, strat)
				if strat == 0 {
					p["newCriterionImportance"] = imp
				}
				variants = append(variants, bias("criteriaMixing", p))
			}
		}
	}
	// all reference-criterion parameters left to their documented defaults, right after applications that set them
	variants = append(variants, bias("criteriaConcealment", M{"randomSeed": 3}), bias("criteriaMixing", M{"randomSeed": 7}))
	s.Bounds["bias_variants"] = len(variants)
	s.Bounds["start_states_per_root"] = len(prefixes)
	sampled := false
	for _, method := range allMethods {
		for _, subset := range []bool{false, true} {
			for variant := 0; variant < 8; variant++ { // observed range, declared range, c1 strictly negative, types left out, weights at 1e-10 scale, never-considered alternatives beyond both ends, c3 single-valued, c3 single-valued and c1 zero everywhere
				root := rootRequest(method, subset, variant == 1)
				if variant == 2 {
					root = negativeVariant(root)
				}
				if variant == 5 {
					root = wideVariant(root)
				}
				if variant >= 6 {
					root = degenerateVariant(root, variant == 7)
				}
				if variant == 4 {
					switch method {
					case "weightedSum", "majorityHeuristic", "aspectEliminationHeuristic":
						for k, v := range asM(asM(root["methodParameters"])["weights"]) {
							asM(asM(root["methodParameters"])["weights"])[k] = asF(v) * 1e-10
						}
					case "electreIII":
						for _, e := range asM(asM(root["methodParameters"])["electreCriteria"]) {
							asM(e)["k"] = asF(asM(e)["k"]) * 1e-10
						}
					default:
						continue
					}
				}
				if variant == 3 {
					if method == "choquetIntegral" {
						continue // the Choquet parser requires the type to be spelled out
					}
					for _, c := range asL(root["criteria"]) {
						if asS(asM(c)["type"]) == "gain" {
							delete(asM(c), "type") // documented default: gain
						}
					}
				}
				for pi, pre := range prefixes {
					if variant >= 2 && pi > 0 && pi != 5 && pi != 13 {
						continue
					}
					if !s.Take() {
						continue
					}
					vlist := variants
					if pi == 0 && variant <= 1 {
						// the same options under the keys the README prints (ReferenceCriterionType, MixingRatio, ...)
						for _, v := range variants {
							vlist = append(vlist, bias(asS(v["name"]), pascalKeys(asM(v["props"]))))
						}
					}
					for _, v := range vlist {
						req := withBiases(root, append(append([]M{}, pre...), v))
						for _, g := range gs {
							c := &Case{Prop: "C18", Kind: "addition", Req: req, Params: M{"g": g}}
							s.Evals++
							s.Begin(c)
							s.Report(c18Check(c))
						}
						if !sampled && len(pre) == 2 {
							s.Sample(M{"request": req, "generator": "constant script g=0.25 / real seed"})
							sampled = true
						}
					}
				}
			}
		}
	}
}
