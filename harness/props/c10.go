package props

import (
	"bufio"
	"bytes"
	"encoding/json"
	"fmt"
	"io"
	"os"
	"os/exec"
	"path/filepath"
	"strings"
	"sync"

	"github.com/Azbesciak/RealDecisionMaker/lib/verifsched"

	. "rdmverif/engine"
)

// C10 — concurrent requests do not influence each other (DESIGN.md 6.C10). E3: cooperative scheduler over yield
// points inserted before every statement of lib/** and of the service file; preemption-bounded DFS.

func init() {
	Register(&Property{
		ID: "C10", Level: "model_checking",
		Rule: "E3: k=2 threads, each one request of the corpus (7 methods x {no bias, 6 bias kinds} + rejected requests) run against the one process-wide set of registries through the service's own Decide; " +
			"yield point before every statement of every function and closure of lib/** and the re-packaged main.go (instrumented build), cooperative scheduler, map order pinned so schedules replay exactly. " +
			"Phase 1 (write-set): every request solo with the fingerprint of all package-level state taken at EVERY step; W = steps that change it. W empty => no step writes shared state, every interleaving is " +
			"equivalent to a sequential one. Phase 2 (validation of that abstraction on the implementation, and the deciding step if W is not empty): for every pair (identical twins, same method / different bias, " +
			"same bias / different method, accepted x rejected) all schedules with <=1 preemption at statement granularity (thorough: + 2 preemptions at function-entry granularity, + pairs through the HTTP handler); " +
			"oracle: each thread's response == its solo response, no deadlock, same step count. Separate free-running pass: the same bodies as parallel goroutines under the Go race detector (not under the cooperative scheduler, whose hand-offs would hide races). " +
			"states = distinct (request, step) positions fingerprinted, transitions = schedules executed, traces validated = schedules whose two responses equalled the solo ones.",
		Assume: []string{"scheduling points are statement boundaries of lib/** and the service file; third-party internals (gin, mapstructure, reflect caches), the Go memory model and closure-captured state are outside the scheduler/fingerprint and covered only by the race-detector pass",
			"goroutines started by the code under test itself would run outside the scheduler: the instrumenter reports `go` statements (0 today)"},
		Run:      c10Run,
		Check:    c10Check,
		Finalize: c10Finalize,
	})
}

type c10Req struct {
	Name string
	Body []byte
	HTTP bool
}

func (r c10Req) run() []byte {
	if r.HTTP {
		resp := post(r.Body)
		return append([]byte(fmt.Sprintf("%d ", resp.Code)), resp.Body...)
	}
	out := Decide(r.Body, nil)
	if !out.Accepted {
		return []byte("rejected: " + out.Err)
	}
	return out.Body
}

func c10Corpus(thorough bool) []c10Req {
	var out []c10Req
	core := biasAlphabet(0)
	kinds := []int{0, 1, 2, 4, 6, 7, 8} // omission, reversal, fatigue, concealment, mixing, anchoring inline, anchoring newCriterion
	for _, m := range allMethods {
		root := rootRequest(m, true, false)
		if m == "majorityHeuristic" || m == "satisfactionHeuristic" {
			root = withMP(root, M{"currentChoice": "a", "randomAlternativesOrdering": true, "randomSeed": 3})
		}
		if m == "aspectEliminationHeuristic" {
			root = withMP(root, M{"randomAlternativesOrdering": true, "function": "idealAdditiveCoefficient", "params": M{"coefficient": 0.25, "minValue": 0.0, "maxValue": 1.0}})
		}
		out = append(out, c10Req{Name: m + "/no-bias", Body: J(root)})
		for _, k := range kinds {
			out = append(out, c10Req{Name: m + "/" + biasLabel(core[k]), Body: J(withBiases(root, []M{core[k]}))})
		}
	}
	for _, pol := range []string{"allow", "current", "newer", "random"} {
		out = append(out, c10Req{Name: "majorityHeuristic/ties-draw=" + pol, Body: J(withMP(tieRequest("majorityHeuristic"), M{"drawResolution": pol}))})
	}
	for _, r := range defaultsCorpus() {
		if strings.HasPrefix(r.Name, "defaults/omission/") || strings.HasPrefix(r.Name, "defaults/reversal/") || strings.HasPrefix(r.Name, "defaults/anchoring/inline") {
			out = append(out, c10Req{Name: "weightedSum/" + strings.TrimPrefix(r.Name, "defaults/"), Body: J(r.Req)})
		}
	}
	// option twins: two requests that use the same non-default option of the same bias on different data (other criteria
	// ids, another number of criteria) — a component that is selected by the option and shared by all requests shows
	// cross-talk between them
	for _, o := range []string{"random", "weakestByProbability", "strongest"} {
		for _, bn := range []string{"criteriaOmission", "preferenceReversal"} {
			b := bias(bn, M{"ratio": 0.5, "ordering": o, "randomSeed": 9})
			a := withBiases(rootRequest("weightedSum", true, false), []M{b})
			other := genericRequest("weightedSum", []string{"k1", "k2", "k3", "k4", "k5"}, 1, []string{"p", "q", "r"},
				[][]float64{{1, 2, 3, 4, 5}, {5, 4, 3, 2, 1}, {2, 2, 2, 2, 2}}, []string{"q", "p"}, []float64{1, 2, 3, 4, 5})
			out = append(out, c10Req{Name: "optiontwin/" + bn + "-" + o + "/A", Body: J(a)}, c10Req{Name: "optiontwin/" + bn + "-" + o + "/B", Body: J(withBiases(other, []M{b}))})
		}
	}
	// reference-criterion strategies other than the default, shared by concealment, mixing and the anchoring applier that
	// adds a criterion: three requests per strategy, each with a seed no other request of the corpus uses
	for si, strat := range []string{"randomUniform", "randomWeighted"} {
		for bi, bn := range []string{"criteriaConcealment", "criteriaMixing", "anchoringNew"} {
			p := M{"referenceCriterionType": strat, "newCriterionRandomSeed": 21 + 3*si + bi, "randomSeed": 2}
			var b M
			if bn == "anchoringNew" {
				b = anchoringBias(2, false, false)
				asM(asM(b["props"])["applier"])["params"] = p
			} else {
				b = bias(bn, p)
			}
			root := rootRequest([]string{"weightedSum", "owa", "majorityHeuristic"}[bi], true, false)
			out = append(out, c10Req{Name: fmt.Sprintf("optiontwin/%s-%sRef/%c", bn, strat[6:9], 'A'+bi), Body: J(withBiases(root, []M{b}))})
		}
	}
	// fatigue functions that share all parameters but one (a result remembered under part of its parameters shows as cross-talk)
	for i, fp := range []M{{"alpha": 0.5, "multiplier": 1.0, "queryNumber": 2}, {"alpha": 0.5, "multiplier": 0.1, "queryNumber": 2}, {"alpha": 0.5, "multiplier": 1.0, "queryNumber": 3}} {
		b := bias("fatigue", M{"function": "expFromZero", "params": fp, "randomSeed": 2})
		out = append(out, c10Req{Name: fmt.Sprintf("optiontwin/fatigue-expFromZero/%c", 'A'+i), Body: J(withBiases(rootRequest("weightedSum", true, false), []M{b}))})
	}
	// ELECTRE III with the distillation function left to its default / declared (a valid one, a rejected one): what one
	// request declares must not reach the one that declares nothing
	{
		el := bigRequest("electreIII")
		withDist := func(d M) M {
			r := asM(deepCopy(el))
			asM(r["methodParameters"])["electreDistillation"] = d
			return M(r)
		}
		out = append(out, c10Req{Name: "optiontwin/electre-distillation/default", Body: J(el)},
			c10Req{Name: "optiontwin/electre-distillation/declared", Body: J(withDist(M{"a": 0.0, "b": 0.05}))},
			c10Req{Name: "optiontwin/electre-distillation/rejected", Body: J(withDist(M{"a": 0.0, "b": -1.0}))})
	}
	inv := invalidCorpus()
	for i, r := range inv {
		if i == 1 || i == 3 || i == 19 || strings.Contains(r.Rule, "unknown-ordering") || strings.Contains(r.Rule, "unknown-reference-type") || strings.Contains(r.Rule, "ratio-above-one") ||
			(strings.Contains(r.Rule, "-of-50") && !strings.HasPrefix(r.Rule, "electreIII")) {
			out = append(out, c10Req{Name: r.Name, Body: J(r.Req)})
		}
	}
	return out
}

// c10Heavy: long, deep evaluations for the free-running pass (too many steps for the statement-level explorer).
func c10Heavy() []c10Req {
	mk := func(method string, n int) c10Req {
		ids := make([]string, n)
		vals := make([][]float64, n)
		for i := range ids {
			ids[i] = fmt.Sprintf("h%03d", (i*7)%n)
			vals[i] = []float64{float64(i) * 2, float64(i)*2 + 1}
		}
		req := genericRequest(method, []string{"c1", "c2"}, -1, ids, vals, ids, []float64{1, 2})
		return c10Req{Name: fmt.Sprintf("heavy/%s/%d-alternatives", method, n), Body: J(req)}
	}
	return []c10Req{mk("electreIII", 130), mk("owa", 200), mk("majorityHeuristic", 60), mk("weightedSum", 200)}
}

type c10Pair struct{ a, b int }

func c10Pairs(corpus []c10Req, thorough bool) []c10Pair {
	var out []c10Pair
	seen := map[c10Pair]bool{}
	add := func(a, b int) {
		p := c10Pair{a, b}
		if !seen[p] {
			seen[p] = true
			out = append(out, p)
		}
	}
	method := func(i int) string { return strings.SplitN(corpus[i].Name, "/", 2)[0] }
	kind := func(i int) string { return strings.SplitN(corpus[i].Name, "/", 2)[1] }
	for i := range corpus {
		add(i, i) // identical twins
	}
	for i := range corpus {
		for j := range corpus {
			if i >= j {
				continue
			}
			sameM := method(i) == method(j) && method(i) != "invalid"
			sameK := kind(i) == kind(j) && method(i) != "invalid" && method(j) != "invalid"
			mixed := (method(i) == "invalid") != (method(j) == "invalid")
			switch {
			case method(i) == "optiontwin" && method(j) == "optiontwin":
				if strings.SplitN(kind(i), "-", 2)[1][:3] == strings.SplitN(kind(j), "-", 2)[1][:3] && kind(i) != kind(j) {
					add(i, j) // same ordering, any of the two biases, different data
					add(j, i)
				}
			case method(i) == "optiontwin" || method(j) == "optiontwin":
			case thorough && (sameM || sameK || mixed):
				add(i, j)
			case sameM && (j-i == 1 || j-i == 3):
				add(i, j)
			case sameK && (j-i == 8 || j-i == 24):
				add(i, j)
			case mixed && (i%8 == 0 || j%8 == 0) && (i+j)%3 == 0:
				add(i, j)
			case mixed && (strings.Contains(corpus[i].Name, "/omission/") || strings.Contains(corpus[i].Name, "/reversal/")) && (strings.Contains(corpus[j].Name, "ordering") || strings.Contains(corpus[j].Name, "ratio")):
				// a valid request that leaves ordering/min/max to their defaults next to a request rejected for that option
				add(j, i)
				add(i, j)
			}
		}
	}
	return out
}

type soloInfo struct {
	out     []byte
	steps   int64
	entries []int64 // steps that are function entries
	writes  []int64 // steps after which the shared-state fingerprint differs
}

var entryPoints map[int32]bool

func loadEntryPoints() {
	entryPoints = map[int32]bool{}
	dir := os.Getenv("VERIF_BUILD_DIR")
	b, err := os.ReadFile(filepath.Join(dir, "instr", "points.json"))
	if err != nil {
		return
	}
	var pj struct {
		Points []struct {
			ID    int32 `json:"id"`
			Entry bool  `json:"entry"`
		} `json:"points"`
		GoStatements int `json:"go_statements"`
	}
	json.Unmarshal(b, &pj)
	for _, p := range pj.Points {
		if p.Entry {
			entryPoints[p.ID] = true
		}
	}
	if cur != nil {
		cur.Bounds["yield_points_static"] = len(pj.Points)
		cur.Bounds["go_statements_in_code_under_test"] = pj.GoStatements
	}
}

func c10Solo(r c10Req, fingerprintEveryStep bool) soloInfo {
	var info soloInfo
	last := ""
	if fingerprintEveryStep {
		last = Fingerprint()
	}
	hook := func(th int, step int64, pt int32) {
		if entryPoints[pt] {
			info.entries = append(info.entries, step)
		}
		if fingerprintEveryStep {
			if fp := Fingerprint(); fp != last {
				info.writes = append(info.writes, step-1)
				last = fp
			}
		}
	}
	run := verifsched.Execute([]func(){func() { info.out = r.run() }}, []int{0}, nil, hook)
	info.steps = run.Step
	if fingerprintEveryStep {
		if fp := Fingerprint(); fp != last {
			info.writes = append(info.writes, run.Step)
		}
	}
	return info
}

type c10Sched struct {
	Order    []int               `json:"order"`
	Switches []verifsched.Switch `json:"switches"`
}

func c10Exec(a, b c10Req, sc c10Sched) (outA, outB []byte, run *verifsched.Run) {
	run = verifsched.Execute([]func(){func() { outA = a.run() }, func() { outB = b.run() }}, sc.Order, sc.Switches, nil)
	return
}

func c10CheckSchedule(c *Case, a, b c10Req, sa, sb soloInfo, sc c10Sched) []Violation {
	outA, outB, run := c10Exec(a, b, sc)
	stat("transitions")
	var vs []Violation
	if run.Deadlock {
		vs = append(vs, viol(c, "C10/deadlock", "schedule %+v of (%s, %s) ends with a thread that can never run", sc, a.Name, b.Name))
	}
	if !bytes.Equal(outA, sa.out) {
		vs = append(vs, viol(c, "C10/response-differs", "under schedule %+v the response to %s differs from its solo response: %s", sc, a.Name, firstDiff(string(sa.out), string(outA))))
	}
	if !bytes.Equal(outB, sb.out) {
		vs = append(vs, viol(c, "C10/response-differs", "under schedule %+v the response to %s differs from its solo response: %s", sc, b.Name, firstDiff(string(sb.out), string(outB))))
	}
	if len(vs) == 0 && run.Step != sa.steps+sb.steps {
		// different paths with identical responses (e.g. a correctly synchronised lazy initialisation) are not a
		// violation of the statement; counted so that the evidence shows it
		stat("schedules_with_different_step_count_but_equal_responses")
	}
	if len(vs) == 0 {
		stat("traces_validated")
	}
	return vs
}

func caseFor(a, b c10Req, sc c10Sched) *Case {
	return &Case{Prop: "C10", Kind: "schedule", Params: M{"a": string(a.Body), "b": string(b.Body), "a_name": a.Name, "b_name": b.Name, "a_http": a.HTTP, "b_http": b.HTTP, "schedule": sc}}
}

func c10Check(c *Case) []Violation {
	if c.Kind == "race" {
		return c10RacePass(c, asS(c.Params["tier"]))
	}
	a := c10Req{Name: asS(c.Params["a_name"]), Body: []byte(asS(c.Params["a"]))}
	b := c10Req{Name: asS(c.Params["b_name"]), Body: []byte(asS(c.Params["b"]))}
	a.HTTP, _ = c.Params["a_http"].(bool)
	b.HTTP, _ = c.Params["b_http"].(bool)
	var sc c10Sched
	jsonUnmarshal(J(c.Params["schedule"]), &sc)
	loadEntryPoints()
	if cold, _ := c.Params["cold"].(bool); cold {
		// cold-start schedule: run it first, compare with the solo responses computed afterwards
		outA, outB, run := c10Exec(a, b, sc)
		sa, sb := c10Solo(a, false), c10Solo(b, false)
		if run.Deadlock || !bytes.Equal(outA, sa.out) || !bytes.Equal(outB, sb.out) {
			return []Violation{viol(c, "C10/cold-start-response-differs", "as the first requests of the process under schedule %+v the two requests do not get their solo responses", sc)}
		}
		return nil
	}
	sa, sb := c10Solo(a, false), c10Solo(b, false)
	if sa.steps == 0 {
		return []Violation{viol(c, "C10/not-instrumented", "replay needs the instrumented binary (./check.sh replay uses it for C10)")}
	}
	return c10CheckSchedule(c, a, b, sa, sb, sc)
}

func c10Run(s *Shard) {
	cur = s
	loadEntryPoints()
	thorough := !quick(s)
	corpus := c10Corpus(thorough)
	s.Bounds["corpus"] = len(corpus)
	probe := c10Solo(corpus[0], false)
	if probe.steps == 0 {
		s.Notes = append(s.Notes, "binary is not instrumented (no yield points executed): C10 cannot be decided")
		s.Exhaustive = false
		s.Report([]Violation{viol(&Case{Prop: "C10", Kind: "setup"}, "C10/harness-not-instrumented", "no yield point was executed")})
		return
	}
	// phase 1: write sets (every worker needs the solo info of the requests of its pairs; fingerprints at every
	// step are taken for this worker's share of the corpus)
	solo := make([]soloInfo, len(corpus))
	have := make([]bool, len(corpus))
	for i, r := range corpus {
		if !s.Take() {
			continue
		}
		c := &Case{Prop: "C10", Kind: "solo", Params: M{"a": string(r.Body), "a_name": r.Name}}
		s.Evals++
		s.Begin(c)
		a := c10Solo(r, true)
		b := c10Solo(r, false)
		s.Count("states", a.steps)
		s.Count("solo_steps_total", a.steps)
		if !bytes.Equal(a.out, b.out) || a.steps != b.steps {
			s.Report([]Violation{viol(c, "C10/solo-not-repeatable", "two solo runs of %s differ (%d vs %d steps)", r.Name, a.steps, b.steps)})
		}
		if len(a.writes) > 0 {
			s.Count("write_steps", int64(len(a.writes)))
			s.Notes = append(s.Notes, fmt.Sprintf("W not empty: %s changes package-level state at steps %v", r.Name, a.writes))
			// the write may happen once per process (lazy initialisation): explore the interleavings around it from a COLD
			// process, one fresh process per schedule (twins, both orders, preemption just before / at / after each write)
			c10Cold(s, r, b, a.writes)
		}
		solo[i], have[i] = b, true
		s.Outcome(true, "solo", r.Name, a.steps)
	}
	get := func(i int) soloInfo {
		if !have[i] {
			solo[i], have[i] = c10Solo(corpus[i], false), true
		}
		return solo[i]
	}
	// phase 2
	pairs := c10Pairs(corpus, thorough)
	s.Bounds["pairs"] = len(pairs)
	s.Bounds["preemption_bound"] = map[bool]string{false: "1 (statement level)", true: "1 (statement level) + 2 (function-entry level)"}[thorough]
	sampled := false
	for _, p := range pairs {
		if !s.Take() {
			continue
		}
		a, b := corpus[p.a], corpus[p.b]
		sa, sb := get(p.a), get(p.b)
		run := func(sc c10Sched) bool {
			c := caseFor(a, b, sc)
			s.Evals++
			s.Begin(c)
			vs := c10CheckSchedule(c, a, b, sa, sb, sc)
			s.Report(vs)
			return len(vs) == 0
		}
		ok := run(c10Sched{Order: []int{0, 1}}) && run(c10Sched{Order: []int{1, 0}})
		if !ok {
			continue
		}
		bad := 0
		for i := int64(1); i <= sa.steps && bad < 3; i++ {
			if !run(c10Sched{Order: []int{0, 1}, Switches: []verifsched.Switch{{At: i, To: 1}}}) {
				bad++
			}
		}
		for i := int64(1); i <= sb.steps && bad < 3; i++ {
			if !run(c10Sched{Order: []int{1, 0}, Switches: []verifsched.Switch{{At: i, To: 0}}}) {
				bad++
			}
		}
		if thorough && bad == 0 {
			for _, i := range sa.entries {
				for _, j := range sb.entries {
					if !run(c10Sched{Order: []int{0, 1}, Switches: []verifsched.Switch{{At: i, To: 1}, {At: i + j, To: 0}}}) {
						bad++
						break
					}
				}
				if bad > 0 {
					break
				}
			}
		}
		s.Outcome(true, "pair", a.Name, b.Name)
		if !sampled {
			s.Sample(M{"thread_a": a.Name, "thread_b": b.Name, "schedule_example": c10Sched{Order: []int{0, 1}, Switches: []verifsched.Switch{{At: sa.steps / 2, To: 1}}}, "steps_a": sa.steps, "steps_b": sb.steps})
			sampled = true
		}
	}
	if thorough {
		// a few pairs through the HTTP handler (ServeHTTP -> the service's decideHandler)
		for _, p := range pairs {
			if p.a%8 != 0 || !s.Take() {
				continue
			}
			a, b := corpus[p.a], corpus[p.b]
			a.HTTP, b.HTTP = true, true
			a.Name, b.Name = "http:"+a.Name, "http:"+b.Name
			sa, sb := c10Solo(a, false), c10Solo(b, false)
			for i := int64(1); i <= sa.steps; i++ {
				sc := c10Sched{Order: []int{0, 1}, Switches: []verifsched.Switch{{At: i, To: 1}}}
				c := caseFor(a, b, sc)
				s.Evals++
				s.Begin(c)
				s.Report(c10CheckSchedule(c, a, b, sa, sb, sc))
			}
		}
	}
	// free-running race-detector pass (one worker starts it)
	if s.Idx == 0 {
		c := &Case{Prop: "C10", Kind: "race", Params: M{"tier": s.Tier}}
		s.Evals++
		s.Begin(c)
		s.Report(c10RacePass(c, s.Tier))
	}
}

// ColdMain runs ONE schedule in a fresh process (no request served before) and prints the two responses' hashes.
func ColdMain(path string) int {
	b, err := os.ReadFile(path)
	if err != nil {
		return 2
	}
	var c Case
	if json.Unmarshal(b, &c) != nil {
		return 2
	}
	a := c10Req{Name: asS(c.Params["a_name"]), Body: []byte(asS(c.Params["a"]))}
	bb := c10Req{Name: asS(c.Params["b_name"]), Body: []byte(asS(c.Params["b"]))}
	var sc c10Sched
	jsonUnmarshal(J(c.Params["schedule"]), &sc)
	outA, outB, run := c10Exec(a, bb, sc)
	fmt.Printf("COLD %s %s %v\n", bodyHash(outA), bodyHash(outB), run.Deadlock)
	return 0
}

func c10Cold(s *Shard, r c10Req, solo soloInfo, writes []int64) {
	dir, err := os.MkdirTemp(os.Getenv("VERIF_BUILD_DIR"), "cold-")
	if err != nil {
		return
	}
	defer os.RemoveAll(dir)
	self, _ := os.Executable()
	want := bodyHash(solo.out)
	seen := map[int64]bool{}
	var ats []int64
	for _, w := range writes {
		for d := int64(-1); d <= 2; d++ {
			if at := w + d; at >= 1 && at <= solo.steps && !seen[at] {
				seen[at] = true
				ats = append(ats, at)
			}
		}
	}
	if len(ats) > 24 {
		ats = ats[:24]
	}
	for _, at := range ats {
		for _, order := range [][]int{{0, 1}, {1, 0}} {
			sc := c10Sched{Order: order, Switches: []verifsched.Switch{{At: at, To: order[1]}}}
			c := caseFor(r, r, sc)
			c.Params["cold"] = true
			f := filepath.Join(dir, "case.json")
			os.WriteFile(f, J(c), 0o644)
			s.Evals++
			s.Count("cold_process_schedules", 1)
			cmd := exec.Command(self, "cold", f)
			cmd.Env = append(os.Environ(), "GOMAXPROCS=2")
			out, err := cmd.CombinedOutput()
			var ha, hb, dl string
			ok := false
			for _, l := range strings.Split(string(out), "\n") {
				if strings.HasPrefix(l, "COLD ") {
					fmt.Sscanf(l, "COLD %s %s %s", &ha, &hb, &dl)
					ok = true
				}
			}
			if err != nil || !ok {
				t := string(out)
				if len(t) > 600 {
					t = t[len(t)-600:]
				}
				s.Report([]Violation{viol(c, "C10/cold-start-crash", "two copies of %s as the first requests of a fresh process under schedule %+v: the process died: %v %s", r.Name, sc, err, t)})
				return
			}
			if ha != want || hb != want || dl == "true" {
				s.Report([]Violation{viol(c, "C10/cold-start-response-differs", "two copies of %s as the very first requests of a fresh process under schedule %+v do not both get the solo response", r.Name, sc)})
				return
			}
		}
	}
}

func c10RacePass(c *Case, tier string) []Violation {
	bin := filepath.Join(os.Getenv("VERIF_BUILD_DIR"), "rdmrace")
	if _, err := os.Stat(bin); err != nil {
		stat("race_pass_skipped_no_binary")
		return []Violation{viol(c, "C10/race-binary-missing", "the race-detector binary was not built: %v", err)}
	}
	cmd := exec.Command(bin, "race", tier)
	cmd.Env = append(os.Environ(), "GORACE=halt_on_error=1 exitcode=66", "GOMAXPROCS=8")
	// the child prints one "progress" line per round; every line keeps the hang watchdog quiet, silence of the child for
	// HangSeconds is a concurrent request that is never answered
	var buf bytes.Buffer
	pr, pw := io.Pipe()
	cmd.Stdout, cmd.Stderr = pw, pw
	done := make(chan struct{})
	go func() {
		sc := bufio.NewScanner(pr)
		sc.Buffer(make([]byte, 1<<20), 1<<26)
		for sc.Scan() {
			if cur != nil {
				cur.Tick()
			}
			if !strings.HasPrefix(sc.Text(), "progress ") {
				buf.WriteString(sc.Text())
				buf.WriteByte('\n')
			}
		}
		close(done)
	}()
	err := cmd.Run()
	pw.Close()
	<-done
	text := buf.String()
	if cur != nil {
		for _, l := range strings.Split(text, "\n") {
			if strings.HasPrefix(l, "race-pass:") {
				cur.Notes = append(cur.Notes, l)
			}
		}
	}
	if err != nil {
		if strings.Contains(text, "WARNING: DATA RACE") {
			i := strings.Index(text, "WARNING: DATA RACE")
			end := i + 1500
			if end > len(text) {
				end = len(text)
			}
			return []Violation{viol(c, "C10/data-race", "the Go race detector reports a data race between concurrently processed requests:\n%s", text[i:end])}
		}
		if strings.Contains(text, "MISMATCH") {
			i := strings.Index(text, "MISMATCH")
			end := i + 600
			if end > len(text) {
				end = len(text)
			}
			return []Violation{viol(c, "C10/concurrent-response-differs", "free-running concurrent requests: %s", text[i:end])}
		}
		tailText := text
		if len(tailText) > 800 {
			tailText = tailText[len(tailText)-800:]
		}
		return []Violation{viol(c, "C10/concurrent-crash", "the process serving concurrent requests died: %v\n%s", err, tailText)}
	}
	stat("race_pass_ok")
	return nil
}

// RaceMain is the body of the free-running pass (built with -race, no cooperative scheduler, unpatched runtime).
func RaceMain(tier string) int {
	corpus := c10Corpus(tier == "thorough")
	// cold start: the very first requests of the process run concurrently (lazily initialised shared state is written
	// exactly once per process); their outputs are compared with the solo outputs computed afterwards
	coldOuts := make([][]byte, len(corpus))
	{
		var wg sync.WaitGroup
		gate := make(chan struct{})
		for i := range corpus {
			wg.Add(1)
			go func(i int) {
				defer wg.Done()
				<-gate
				coldOuts[i] = corpus[i].run()
			}(i)
		}
		close(gate)
		wg.Wait()
	}
	fmt.Println("progress cold-start")
	soloOut := make([][]byte, len(corpus))
	for i, r := range corpus {
		soloOut[i] = r.run()
	}
	fmt.Println("progress solo")
	coldMismatch := 0
	for i := range corpus {
		if !bytes.Equal(coldOuts[i], soloOut[i]) {
			coldMismatch++
			fmt.Printf("MISMATCH request %s answered differently when it was among the first concurrent requests of the process: %s\n", corpus[i].Name, firstDiff(string(soloOut[i]), string(coldOuts[i])))
		}
	}
	rounds, width := 12, 8
	if tier == "thorough" {
		rounds, width = 80, 16
	}
	mismatches := 0
	runs := 0
	for round := 0; round < rounds; round++ {
		for start := 0; start < len(corpus); start += width / 2 {
			var wg sync.WaitGroup
			gate := make(chan struct{})
			outs := make([][]byte, width)
			idx := make([]int, width)
			for k := 0; k < width; k++ {
				// half of the goroutines run the same request (twins), the others neighbours
				i := (start + (k/2)*(1+round%3)) % len(corpus)
				idx[k] = i
				wg.Add(1)
				go func(k, i int) {
					defer wg.Done()
					<-gate
					outs[k] = corpus[i].run()
				}(k, i)
			}
			close(gate)
			wg.Wait()
			fmt.Println("progress round", round, start)
			for k := range outs {
				runs++
				if !bytes.Equal(outs[k], soloOut[idx[k]]) {
					mismatches++
					fmt.Printf("MISMATCH request %s answered differently when run concurrently: %s\n", corpus[idx[k]].Name, firstDiff(string(soloOut[idx[k]]), string(outs[k])))
				}
			}
		}
	}
	// heavy twins: requests whose evaluation is long and deep (130 strictly ordered ELECTRE alternatives, 200 OWA
	// alternatives, 60 majority alternatives), eight copies at once — anything that adds up over the requests in progress
	// (counters, budgets, shared work queues) shows here and nowhere in the small corpus
	for _, hv := range c10Heavy() {
		solo := hv.run()
		for round := 0; round < rounds/2; round++ {
			var wg sync.WaitGroup
			gate := make(chan struct{})
			outs := make([][]byte, 8)
			for k := range outs {
				wg.Add(1)
				go func(k int) {
					defer wg.Done()
					<-gate
					outs[k] = hv.run()
				}(k)
			}
			close(gate)
			wg.Wait()
			fmt.Println("progress heavy", hv.Name, round)
			for k := range outs {
				runs++
				if !bytes.Equal(outs[k], solo) {
					mismatches++
					fmt.Printf("MISMATCH request %s answered differently when eight copies run concurrently: %s\n", hv.Name, firstDiff(string(solo), string(outs[k])))
				}
			}
		}
	}
	fmt.Printf("race-pass: %d concurrent executions in %d rounds of %d goroutines, %d mismatches\n", runs, rounds, width, mismatches)
	if mismatches+coldMismatch > 0 {
		return 1
	}
	return 0
}

func c10Finalize(m *Merged) {
	m.Extra["states"] = m.Counters["states"]
	m.Extra["transitions"] = m.Counters["transitions"]
	m.Extra["traces_validated_against_impl"] = m.Counters["traces_validated"]
	m.Extra["write_set_size"] = m.Counters["write_steps"]
	if m.Counters["write_steps"] == 0 {
		m.Extra["lifting"] = "W is empty: no step of any corpus request changes package-level state, so every interleaving (any number of preemptions) is equivalent to a sequential execution; the bounded exploration validates this on the implementation"
	} else {
		m.Extra["lifting"] = "W is not empty: the result is bounded by the explored preemption bound"
		m.Exhaustive = false
	}
}
