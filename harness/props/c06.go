package props

import (
	"fmt"

	"github.com/Azbesciak/RealDecisionMaker/lib/logic/preference-func/electreIII"
	"github.com/Azbesciak/RealDecisionMaker/lib/model"
	"github.com/Azbesciak/RealDecisionMaker/lib/utils"

	. "rdmverif/engine"
)

// C06 — ELECTRE III respects dominance, equality, listing order and weight scaling (DESIGN.md 6.C06).
// Differential oracle between runs of the implementation; no reference model.

func init() {
	Register(&Property{
		ID: "C06", Level: "exploration",
		Rule: "E1 over the C05 request space (n in 2..4, m in {1,2}, values {0,1,2} full product, options within 2 deviations; n=4/m=2 within 1): for every instance " +
			"(a) every pair with a>=b on all signed criteria: asc(a)<=asc(b), desc(a)<=desc(b), b in links(a); (b) identical alternatives: identical indices, mutual links; " +
			"(c) every permutation of the listing (all n!; quick tier n=4/m=2: rotations+reversal): same per-id indices; (d) all weights k x {0.5,2,4} (quick n=4/m=2: x2): same indices. " +
			"Plus (d') directed near-copy grids (a, a worsened by one grid step on one criterion, arbitrary x) under wide veto zones with 2 and 3 criteria, (e) the dominance clauses on a three-criteria grid in which all criteria may veto (n=3, values {0,1,2}^9, 27 threshold layouts x 2 weight vectors) and (f) dominance at the level of the credibility matrix (a dominates b: sigma(a,b)=1, row a >= row b, column a <= column b) on every 3x3 matrix over 5 levels and every 4x4 matrix over 3 levels (thorough: 7 / 5 levels) x 4 distillation functions through the exported distillation entry points. " +
			"distinct_nontrivial = distinct base responses that contain at least one dominating pair and >=2 classes.",
		Assume: []string{"metamorphic relations are checked between runs of the implementation itself"},
		Run:    c06Run,
		Check:  c06Check,
	})
}

func eleIndices(req M) (map[string][2]int, map[string][]string, string) {
	out := Decide(J(req), nil)
	if !out.Accepted {
		return nil, nil, out.Err
	}
	resp, err := ParseResponse(out.Body)
	if err != nil {
		return nil, nil, err.Error()
	}
	idx := map[string][2]int{}
	links := map[string][]string{}
	for _, e := range resp.Result {
		idx[e.Alternative.ID] = [2]int{int(asF(e.Evaluation["ascendingIndex"])), int(asF(e.Evaluation["descendingIndex"]))}
		links[e.Alternative.ID] = e.BetterThanOrSameAs
	}
	return idx, links, ""
}

func cfgFromParams(p map[string]interface{}) eleCfg {
	var cfg eleCfg
	b := J(p["cfg"])
	if err := jsonUnmarshal(b, &cfg); err != nil {
		panic(err)
	}
	return cfg
}

// c06Matrix: dominance at the level of the credibility matrix. If a is at least as good as b on every criterion then
// sigma(a,b)=1, sigma(a,x)>=sigma(b,x) and sigma(x,a)<=sigma(x,b) for every other x; on every such matrix neither
// distillation may put b into a better class than a.
func c06Matrix(c *Case) []Violation {
	n := int(asF(c.Params["n"]))
	flat := toFloats(c.Params["sigma"])
	d := distFn{A: asF(c.Params["a"]), B: asF(c.Params["b"])}
	sigma := make([][]float64, n)
	rows := make([][]float64, n)
	k := 0
	for i := 0; i < n; i++ {
		sigma[i] = make([]float64, n)
		rows[i] = make([]float64, n)
		for j := 0; j < n; j++ {
			if i == j {
				rows[i][j] = 1
				continue
			}
			sigma[i][j], rows[i][j] = flat[k], flat[k]
			k++
		}
	}
	var pairs [][2]int
	for a := 0; a < n; a++ {
		for b := 0; b < n; b++ {
			if a == b || sigma[a][b] != 1 {
				continue
			}
			ok := true
			for x := 0; x < n; x++ {
				if x != a && x != b && (sigma[a][x] < sigma[b][x] || sigma[x][a] > sigma[x][b]) {
					ok = false
				}
			}
			if ok {
				pairs = append(pairs, [2]int{a, b})
			}
		}
	}
	if len(pairs) == 0 {
		return nil
	}
	ids := ids6[:n]
	alts := model.Alternatives(ids)
	var asc, desc []int
	failed := ""
	func() {
		defer func() {
			if e := recover(); e != nil {
				failed = fmt.Sprint(e)
			}
		}()
		fn := &utils.LinearFunctionParameters{A: d.A, B: d.B}
		asc = *electreIII.RankAscending(&electreIII.AlternativesMatrix{Alternatives: &alts, Values: electreIII.NewMatrix(&rows)}, fn)
		desc = *electreIII.RankDescending(&electreIII.AlternativesMatrix{Alternatives: &alts, Values: electreIII.NewMatrix(&rows)}, fn)
	}()
	if failed != "" {
		return []Violation{viol(c, "C06/matrix-panic", "distillation failed: %s", failed)}
	}
	if cur != nil {
		cur.Outcome(true, "matrix", flat, d.A, d.B)
	}
	var vs []Violation
	for _, p := range pairs {
		if asc[p[0]] > asc[p[1]] {
			vs = append(vs, viol(c, "C06/matrix-dominance-ascending", "%s dominates %s in the credibility matrix but the best-first distillation gives classes %v", ids[p[0]], ids[p[1]], asc))
		}
		if desc[p[0]] > desc[p[1]] {
			vs = append(vs, viol(c, "C06/matrix-dominance-descending", "%s dominates %s in the credibility matrix but the worst-first distillation gives classes %v", ids[p[0]], ids[p[1]], desc))
		}
	}
	return vs
}

func c06Check(c *Case) []Violation {
	if c.Kind == "matrix" {
		return c06Matrix(c)
	}
	if c.Kind == "veto" {
		return c06Dominance(c)
	}
	if c.Kind == "large" {
		return c06LargeCheck(c)
	}
	cfg := cfgFromParams(c.Params)
	req := eleRequest(cfg)
	base, links, errs := eleIndices(req)
	if base == nil {
		return []Violation{viol(c, "C06/rejected", "valid ELECTRE III request rejected: %s", errs)}
	}
	var vs []Violation
	m := len(cfg.Types)
	sg := make([]float64, m)
	for j := range sg {
		sg[j] = 1
		if cfg.Types[j] == "cost" {
			sg[j] = -1
		}
	}
	dominating := 0
	for a := 0; a < cfg.N; a++ {
		for b := 0; b < cfg.N; b++ {
			if a == b {
				continue
			}
			ge, eq := true, true
			for j := 0; j < m; j++ {
				if sg[j]*cfg.Vals[a][j] < sg[j]*cfg.Vals[b][j] {
					ge = false
				}
				if cfg.Vals[a][j] != cfg.Vals[b][j] {
					eq = false
				}
			}
			ia, ib := base[ids6[a]], base[ids6[b]]
			if ge {
				dominating++
				if ia[0] > ib[0] || ia[1] > ib[1] {
					vs = append(vs, viol(c, "C06/dominance-class", "%s is at least as good as %s on every criterion but has indices %v vs %v", ids6[a], ids6[b], ia, ib))
				} else if !contains(links[ids6[a]], ids6[b]) {
					vs = append(vs, viol(c, "C06/dominance-link", "%s is at least as good as %s on every criterion but does not list it (links %v)", ids6[a], ids6[b], links[ids6[a]]))
				}
			}
			if eq && ia != ib {
				vs = append(vs, viol(c, "C06/identical", "%s and %s have identical values but indices %v vs %v", ids6[a], ids6[b], ia, ib))
			}
		}
	}
	if cur != nil {
		classes := map[int]bool{}
		for _, v := range base {
			classes[v[0]] = true
		}
		cur.Outcome(dominating > 0 && len(classes) >= 2, fmt.Sprint(cfg), fmt.Sprint(base))
	}
	// listing order
	big := liteEnum && cfg.N >= 4 && m >= 2
	perms := permSet(cfg.N, 4)
	if big {
		perms = permSet(cfg.N, 3)
	}
	for _, p := range perms {
		ident := true
		for i, v := range p {
			if i != v {
				ident = false
			}
		}
		if ident {
			continue
		}
		pc := cfg
		pc.Order = append([]int{}, p...)
		got, _, e := eleIndices(eleRequest(pc))
		if got == nil {
			vs = append(vs, viol(c, "C06/rejected", "permuted request rejected: %s", e))
			continue
		}
		for id, v := range base {
			if got[id] != v {
				vs = append(vs, viol(c, "C06/listing-order", "listing order %v changes the indices of %s from %v to %v", p, id, v, got[id]))
				break
			}
		}
	}
	// weight scaling by powers of two
	for fi, f := range []float64{1.0 / (1 << 40), 2, 1 << 40} { // 2^-40 (every k below any absolute epsilon), 2, 2^40
		if big && fi > 0 {
			break
		}
		sc := cfg
		sc.K = make([]float64, len(cfg.K))
		for i, k := range cfg.K {
			sc.K[i] = k * f
		}
		got, _, e := eleIndices(eleRequest(sc))
		if got == nil {
			vs = append(vs, viol(c, "C06/rejected", "scaled request rejected: %s", e))
			continue
		}
		for id, v := range base {
			if got[id] != v {
				vs = append(vs, viol(c, "C06/weight-scaling", "multiplying every k by %v changes the indices of %s from %v to %v", f, id, v, got[id]))
				break
			}
		}
	}
	return vs
}

// c06Dominance: dominance / identity clauses only (one run per instance) — used on the three-criteria veto grid.
func c06Dominance(c *Case) []Violation {
	cfg := cfgFromParams(c.Params)
	base, links, errs := eleIndices(eleRequest(cfg))
	if base == nil {
		return []Violation{viol(c, "C06/rejected", "valid ELECTRE III request rejected: %s", errs)}
	}
	var vs []Violation
	m := len(cfg.Types)
	for a := 0; a < cfg.N; a++ {
		for b := 0; b < cfg.N; b++ {
			if a == b {
				continue
			}
			ge := true
			for j := 0; j < m; j++ {
				sg := 1.0
				if cfg.Types[j] == "cost" {
					sg = -1
				}
				if sg*cfg.Vals[a][j] < sg*cfg.Vals[b][j] {
					ge = false
				}
			}
			ia, ib := base[ids6[a]], base[ids6[b]]
			if ge && (ia[0] > ib[0] || ia[1] > ib[1]) {
				vs = append(vs, viol(c, "C06/dominance-class", "%s is at least as good as %s on every criterion but has indices %v vs %v", ids6[a], ids6[b], ia, ib))
			} else if ge && !contains(links[ids6[a]], ids6[b]) {
				vs = append(vs, viol(c, "C06/dominance-link", "%s is at least as good as %s on every criterion but does not list it (links %v)", ids6[a], ids6[b], links[ids6[a]]))
			}
		}
	}
	if cur != nil {
		cur.Outcome(true, "veto", fmt.Sprint(cfg), fmt.Sprint(base))
	}
	return vs
}

func c06VetoAndMatrixGrids(s *Shard) {
	// three criteria that can all veto, three alternatives (a dominated near-twin next to a third alternative)
	shapes := []thr{{}, {P: 0.5, V: 1.5}, {P: 0.5, V: 2.5}}
	ks := [][]float64{{1, 1, 1}, {1, 1, 2}}
	dims := make([]int, 9)
	for i := range dims {
		dims[i] = 3
	}
	Product(dims, func(idx []int) {
		if !s.Take() {
			return
		}
		vals := [][]float64{{float64(idx[0]), float64(idx[1]), float64(idx[2])}, {float64(idx[3]), float64(idx[4]), float64(idx[5])}, {float64(idx[6]), float64(idx[7]), float64(idx[8])}}
		dom := false
		for a := 0; a < 3 && !dom; a++ {
			for b := 0; b < 3; b++ {
				if a != b && vals[a][0] >= vals[b][0] && vals[a][1] >= vals[b][1] && vals[a][2] >= vals[b][2] {
					dom = true
				}
			}
		}
		if !dom || (quick(s) && (idx[0]+idx[4]+idx[8])%2 == 1) {
			return // quick tier: half of the value grid
		}
		Product([]int{3, 3, 3, 2}, func(o []int) {
			if quick(s) && o[3] == 0 {
				return
			}
			cfg := eleCfg{N: 3, Vals: vals, Types: []string{"gain", "gain", "gain"}, Thr: []thr{shapes[o[0]], shapes[o[1]], shapes[o[2]]}, K: ks[o[3]], Dist: eleDists[0]}
			c := &Case{Prop: "C06", Kind: "veto", Params: M{"cfg": cfg}}
			s.Evals++
			s.Begin(c)
			s.Report(c06Dominance(c))
		})
	})
	// directed grids: a dominating alternative, its near-copy that is one grid step worse on one criterion, and an arbitrary
	// third alternative, under wide veto zones (many partial-discordance levels, differences that hit q, p and v exactly)
	type dg struct {
		vals []float64
		thr  [][]thr
		ks   [][]float64
		mul  []float64 // optional per-criterion scale of the values (mixed magnitudes)
	}
	dgs := []dg{
		{vals: []float64{0, 1, 4, 7}, thr: [][]thr{{{Q: 1, P: 2, V: 4}, {Q: 1, P: 3, V: 6}}, {{Q: 1, P: 3, V: 6}, {Q: 1, P: 2, V: 4}}}, ks: [][]float64{{2, 1}, {1, 1}, {1, 2}}},
		{vals: []float64{0, 6, 7, 10, 11, 20}, thr: [][]thr{{{Q: 1, P: 2, V: 5}, {Q: 1, P: 2, V: 12}, {Q: 1, P: 2, V: 12}}, {{Q: 1, P: 2, V: 12}, {Q: 1, P: 2, V: 12}, {Q: 1, P: 2, V: 12}}}, ks: [][]float64{{6, 2, 2}, {2, 2, 2}}},
	}
	tiny := dg{vals: []float64{0, 1e-9, 4e-9, 7e-9}, thr: [][]thr{{{Q: 1e-9, P: 2e-9, V: 4e-9}, {Q: 1e-9, P: 3e-9, V: 6e-9}}}, ks: [][]float64{{2, 1}, {1, 1}}}
	// one criterion measured at the 1e-9 scale next to an ordinary one
	mixed := dg{vals: []float64{0, 1, 4, 7}, mul: []float64{1e-9, 1}, thr: [][]thr{{{Q: 1e-9, P: 2e-9, V: 4e-9}, {Q: 1, P: 3, V: 6}}, {{Q: 1e-9, P: 3e-9, V: 6e-9}, {Q: 1, P: 2, V: 4}}}, ks: [][]float64{{2, 1}, {1, 1}, {1, 2}}}
	dgs = append(dgs, tiny, mixed)
	for _, g := range dgs {
		m := len(g.thr[0])
		dims := make([]int, 2*m)
		for i := range dims {
			dims[i] = len(g.vals)
		}
		Product(dims, func(idx []int) {
			if !s.Take() {
				return
			}
			a, x := make([]float64, m), make([]float64, m)
			sc := func(j int) float64 {
				if g.mul != nil {
					return g.mul[j]
				}
				return 1
			}
			for j := 0; j < m; j++ {
				a[j], x[j] = g.vals[idx[j]]*sc(j), g.vals[idx[m+j]]*sc(j)
			}
			for j := 0; j < m; j++ {
				if idx[j] == 0 {
					continue
				}
				b := append([]float64{}, a...)
				b[j] = g.vals[idx[j]-1] * sc(j)
				for _, th := range g.thr {
					for _, k := range g.ks {
						types := make([]string, m)
						for t := range types {
							types[t] = "gain"
						}
						cfg := eleCfg{N: 3, Vals: [][]float64{a, b, x}, Types: types, Thr: th, K: k, Dist: eleDists[0]}
						c := &Case{Prop: "C06", Kind: "veto", Params: M{"cfg": cfg}}
						s.Evals++
						s.Begin(c)
						s.Report(c06Dominance(c))
					}
				}
			}
		})
	}
	// credibility matrices
	type mg struct {
		n  int
		lv []float64
	}
	grids := []mg{{3, []float64{0, 0.25, 0.5, 0.75, 1}}, {4, []float64{0, 0.5, 1}}}
	if !quick(s) {
		grids = []mg{{3, []float64{0, 0.125, 0.25, 0.5, 0.75, 0.875, 1}}, {4, []float64{0, 0.25, 0.5, 0.75, 1}}}
	}
	for _, g := range grids {
		dims := make([]int, g.n*(g.n-1))
		for i := range dims {
			dims[i] = len(g.lv)
		}
		Product(dims, func(idx []int) {
			if !s.Take() {
				return
			}
			flat := make([]float64, len(idx))
			for i, k := range idx {
				flat[i] = g.lv[k]
			}
			for di, d := range []distFn{eleDists[1], {}, eleDists[2], eleDists[3]} {
				if quick(s) && g.n == 4 && di > 0 {
					break // 4x4 in the quick tier: default distillation function only
				}
				c := &Case{Prop: "C06", Kind: "matrix", Params: M{"n": g.n, "sigma": flat, "a": d.A, "b": d.B}}
				s.Evals++
				s.Begin(c)
				s.Report(c06Matrix(c))
			}
		})
	}
}

// c06Large: requests with 63..130 alternatives (beyond one machine word of indices): a few distinct profiles among
// many identical fillers, so that the distillations meet ties between proper subsets; every listing rotation that moves
// another profile to the far end. Dominance, identity and listing-order clauses on each.
// eleLarge: a request with n alternatives, a few distinct profiles (shape) at the given listing positions among identical
// fillers, ids in a scrambled order, listings rotated by rot.
func eleLarge(n, shape int, pos []int, rot int) (req M, ids []string, vals [][]float64) {
	profiles := [][][]float64{
		{{5, 5}, {4.5, 5}},                         // top, near (dominated by top, indifferent to it), fillers
		{{5, 5}, {4.5, 5}, {5, 1}, {3, 5}},         // + two more profiles
		{{5, 5}, {5, 5}, {3, 5}, {3, 5}, {2.5, 5}}, // identical pairs at two levels
	}[shape]
	ids = make([]string, n)
	vals = make([][]float64, n)
	for i := range ids {
		ids[i] = fmt.Sprintf("n%03d", (i*37)%n) // ids in a scrambled order (37 is coprime to every n used)
		vals[i] = []float64{1, 5}               // fillers: as good as the best on c2, far behind on c1 (partial credibility, no veto)
	}
	for k, p := range pos {
		if k < len(profiles) {
			vals[p%n] = profiles[k]
		}
	}
	ri := make([]string, n)
	rv := make([][]float64, n)
	for i := range ids {
		ri[i], rv[i] = ids[(i+rot)%n], vals[(i+rot)%n]
	}
	req = genericRequest("electreIII", []string{"c1", "c2"}, -1, ri, rv, ri, []float64{1, 2})
	for _, e := range asM(asM(req["methodParameters"])["electreCriteria"]) {
		asM(e)["v"] = M{"b": 100.0}
	}
	return req, ids, vals
}

func c06LargeCheck(c *Case) []Violation {
	n := int(asF(c.Params["n"]))
	shape := int(asF(c.Params["shape"]))
	pos := toInts(c.Params["positions"])
	_, ids, vals := eleLarge(n, shape, pos, 0)
	build := func(rot int) M {
		req, _, _ := eleLarge(n, shape, pos, rot)
		return req
	}
	base, links, errs := eleIndices(build(0))
	if base == nil {
		return []Violation{viol(c, "C06/rejected", "valid ELECTRE III request with %d alternatives rejected: %s", n, errs)}
	}
	var vs []Violation
	for a := 0; a < n; a++ {
		for b := 0; b < n; b++ {
			if a == b {
				continue
			}
			ia, ib := base[ids[a]], base[ids[b]]
			if vals[a][0] >= vals[b][0] && vals[a][1] >= vals[b][1] {
				if ia[0] > ib[0] || ia[1] > ib[1] {
					return append(vs, viol(c, "C06/dominance-class", "%d alternatives: %s %v is at least as good as %s %v on every criterion but has indices %v vs %v", n, ids[a], vals[a], ids[b], vals[b], ia, ib))
				}
				if !contains(links[ids[a]], ids[b]) {
					return append(vs, viol(c, "C06/dominance-link", "%d alternatives: %s is at least as good as %s on every criterion but does not list it", n, ids[a], ids[b]))
				}
			}
			if vals[a][0] == vals[b][0] && vals[a][1] == vals[b][1] && ia != ib {
				return append(vs, viol(c, "C06/identical", "%d alternatives: %s and %s have identical values but indices %v vs %v", n, ids[a], ids[b], ia, ib))
			}
		}
	}
	for _, rot := range []int{1, n / 2, n - 1} {
		got, _, e := eleIndices(build(rot))
		if got == nil {
			return append(vs, viol(c, "C06/rejected", "rotated request rejected: %s", e))
		}
		for id, v := range base {
			if got[id] != v {
				return append(vs, viol(c, "C06/listing-order", "%d alternatives: rotating the listings by %d changes the indices of %s from %v to %v", n, rot, id, v, got[id]))
			}
		}
	}
	if cur != nil {
		classes := map[int]bool{}
		for _, v := range base {
			classes[v[0]] = true
		}
		cur.Outcome(len(classes) >= 2, "large", n, shape, fmt.Sprint(pos))
	}
	return vs
}

// c06Widths: values whose decimal spellings have different widths (1, 2, 12, 21 and 0.5, 5, 0.55): every triple of profiles
// over two criteria (both gain, both cost, mixed), with and without thresholds — all clauses of the metamorphic check
// (listing permutations included).
func c06Widths(s *Shard) {
	for _, vs := range [][]float64{{1, 2, 12, 21}, {0.5, 5, 0.55, 55}} {
		Product([]int{4, 4, 4, 4, 4, 4, 2, 3}, func(o []int) {
			if !s.Take() {
				return
			}
			vals := [][]float64{{vs[o[0]], vs[o[1]]}, {vs[o[2]], vs[o[3]]}, {vs[o[4]], vs[o[5]]}}
			th := []thr{{}, {}}
			if o[6] == 1 {
				th = []thr{{Q: 1, P: 5, V: 15}, {P: 8}}
			}
			types := [][]string{{"gain", "gain"}, {"cost", "cost"}, {"cost", "gain"}}[o[7]]
			cfg := eleCfg{N: 3, Vals: vals, Types: types, Thr: th, K: []float64{2, 1}, Dist: eleDists[0]}
			c := &Case{Prop: "C06", Kind: "metamorphic", Params: M{"cfg": cfg}}
			s.Evals++
			s.Begin(c)
			s.Report(c06Check(c))
		})
	}
}

func c06Large(s *Shard) {
	sizes := []int{63, 64, 65, 66, 130}
	if !quick(s) {
		sizes = []int{31, 32, 33, 63, 64, 65, 66, 127, 128, 129, 130, 257}
	}
	s.Bounds["large_instances"] = sizes
	for _, n := range sizes {
		for shape := 0; shape < 3; shape++ {
			for _, pos := range [][]int{{0, 1, 2, 3, 4}, {n - 1, n - 2, n - 3, n - 4, n - 5}, {0, n - 1, 1, n - 2, n / 2}, {n - 1, 0, n / 2, 1, n - 2}} {
				if !s.Take() {
					continue
				}
				c := &Case{Prop: "C06", Kind: "large", Params: M{"n": n, "shape": shape, "positions": pos}}
				s.Evals += 4
				s.Begin(c)
				s.Report(c06Check(c))
			}
		}
	}
}

func c06Run(s *Shard) {
	cur = s
	c06Large(s)
	c06Widths(s)
	c06VetoAndMatrixGrids(s)
	liteEnum = quick(s)
	sampled := 0
	eleEnumerate(s, "C06", func(c *Case, cfg eleCfg) {
		if cfg.N == 4 && len(cfg.Types) == 2 && quick(s) {
			// n=4,m=2: keep options within 1 deviation in the quick tier (24 listings per instance)
			dev := 0
			if cfg.Thr[0] != (thr{}) {
				dev++
			}
			if cfg.Thr[1] != (thr{}) {
				dev++
			}
			if cfg.Types[0] != "gain" {
				dev++
			}
			if cfg.Types[1] != "gain" {
				dev++
			}
			if cfg.K[0] != 1 || cfg.K[1] != 1 {
				dev++
			}
			if !cfg.Dist.Default {
				dev++
			}
			if cfg.Extra {
				dev++
			}
			if dev > 1 {
				return
			}
		}
		cc := &Case{Prop: "C06", Kind: "metamorphic", Params: M{"cfg": cfg}}
		s.Evals++
		s.Begin(cc)
		s.Report(c06Check(cc))
		if sampled < 1 && cfg.N == 3 && len(cfg.Types) == 2 {
			s.Sample(M{"instance": cfg, "request": c.Req})
			sampled++
		}
	})
}
