package props

import (
	"fmt"

	. "rdmverif/engine"
)

// C06 — ELECTRE III respects dominance, equality, listing order and weight scaling (DESIGN.md 6.C06).
// Differential oracle between runs of the implementation; no reference model.

func init() {
	Register(&Property{
		ID: "C06", Level: "exploration",
		Rule: "E1 over the C05 request space (n in 2..4, m in {1,2}, values {0,1,2} full product, options within 2 deviations; n=4/m=2 within 1): for every instance " +
			"(a) every pair with a>=b on all signed criteria: asc(a)<=asc(b), desc(a)<=desc(b), b in links(a); (b) identical alternatives: identical indices, mutual links; " +
			"(c) every permutation of the listing (all n!; quick tier n=4/m=2: rotations+reversal): same per-id indices; (d) all weights k x {0.5,2,4} (quick n=4/m=2: x2): same indices. " +
			"distinct_nontrivial = distinct base responses that contain at least one dominating pair and >=2 classes.",
		Assume: []string{"metamorphic relations are checked between runs of the implementation itself"},
		Run:    c06Run,
		Check:  c06Check,
	})
}

func eleIndices(req M) (map[string][2]int, map[string][]string, string) {
	out := Decide(J(req), nil)
	if !out.Accepted {
		return nil, nil, out.Err
	}
	resp, err := ParseResponse(out.Body)
	if err != nil {
		return nil, nil, err.Error()
	}
	idx := map[string][2]int{}
	links := map[string][]string{}
	for _, e := range resp.Result {
		idx[e.Alternative.ID] = [2]int{int(asF(e.Evaluation["ascendingIndex"])), int(asF(e.Evaluation["descendingIndex"]))}
		links[e.Alternative.ID] = e.BetterThanOrSameAs
	}
	return idx, links, ""
}

func cfgFromParams(p map[string]interface{}) eleCfg {
	var cfg eleCfg
	b := J(p["cfg"])
	if err := jsonUnmarshal(b, &cfg); err != nil {
		panic(err)
	}
	return cfg
}

func c06Check(c *Case) []Violation {
	cfg := cfgFromParams(c.Params)
	req := eleRequest(cfg)
	base, links, errs := eleIndices(req)
	if base == nil {
		return []Violation{viol(c, "C06/rejected", "valid ELECTRE III request rejected: %s", errs)}
	}
	var vs []Violation
	m := len(cfg.Types)
	sg := make([]float64, m)
	for j := range sg {
		sg[j] = 1
		if cfg.Types[j] == "cost" {
			sg[j] = -1
		}
	}
	dominating := 0
	for a := 0; a < cfg.N; a++ {
		for b := 0; b < cfg.N; b++ {
			if a == b {
				continue
			}
			ge, eq := true, true
			for j := 0; j < m; j++ {
				if sg[j]*cfg.Vals[a][j] < sg[j]*cfg.Vals[b][j] {
					ge = false
				}
				if cfg.Vals[a][j] != cfg.Vals[b][j] {
					eq = false
				}
			}
			ia, ib := base[ids6[a]], base[ids6[b]]
			if ge {
				dominating++
				if ia[0] > ib[0] || ia[1] > ib[1] {
					vs = append(vs, viol(c, "C06/dominance-class", "%s is at least as good as %s on every criterion but has indices %v vs %v", ids6[a], ids6[b], ia, ib))
				} else if !contains(links[ids6[a]], ids6[b]) {
					vs = append(vs, viol(c, "C06/dominance-link", "%s is at least as good as %s on every criterion but does not list it (links %v)", ids6[a], ids6[b], links[ids6[a]]))
				}
			}
			if eq && ia != ib {
				vs = append(vs, viol(c, "C06/identical", "%s and %s have identical values but indices %v vs %v", ids6[a], ids6[b], ia, ib))
			}
		}
	}
	if cur != nil {
		classes := map[int]bool{}
		for _, v := range base {
			classes[v[0]] = true
		}
		cur.Outcome(dominating > 0 && len(classes) >= 2, fmt.Sprint(cfg), fmt.Sprint(base))
	}
	// listing order
	big := liteEnum && cfg.N >= 4 && m >= 2
	perms := permSet(cfg.N, 4)
	if big {
		perms = permSet(cfg.N, 3)
	}
	for _, p := range perms {
		ident := true
		for i, v := range p {
			if i != v {
				ident = false
			}
		}
		if ident {
			continue
		}
		pc := cfg
		pc.Order = append([]int{}, p...)
		got, _, e := eleIndices(eleRequest(pc))
		if got == nil {
			vs = append(vs, viol(c, "C06/rejected", "permuted request rejected: %s", e))
			continue
		}
		for id, v := range base {
			if got[id] != v {
				vs = append(vs, viol(c, "C06/listing-order", "listing order %v changes the indices of %s from %v to %v", p, id, v, got[id]))
				break
			}
		}
	}
	// weight scaling by powers of two
	for fi, f := range []float64{2, 0.5, 4} {
		if big && fi > 0 {
			break
		}
		sc := cfg
		sc.K = make([]float64, len(cfg.K))
		for i, k := range cfg.K {
			sc.K[i] = k * f
		}
		got, _, e := eleIndices(eleRequest(sc))
		if got == nil {
			vs = append(vs, viol(c, "C06/rejected", "scaled request rejected: %s", e))
			continue
		}
		for id, v := range base {
			if got[id] != v {
				vs = append(vs, viol(c, "C06/weight-scaling", "multiplying every k by %v changes the indices of %s from %v to %v", f, id, v, got[id]))
				break
			}
		}
	}
	return vs
}

func c06Run(s *Shard) {
	cur = s
	liteEnum = quick(s)
	sampled := 0
	eleEnumerate(s, "C06", func(c *Case, cfg eleCfg) {
		if cfg.N == 4 && len(cfg.Types) == 2 && quick(s) {
			// n=4,m=2: keep options within 1 deviation in the quick tier (24 listings per instance)
			dev := 0
			if cfg.Thr[0] != (thr{}) {
				dev++
			}
			if cfg.Thr[1] != (thr{}) {
				dev++
			}
			if cfg.Types[0] != "gain" {
				dev++
			}
			if cfg.Types[1] != "gain" {
				dev++
			}
			if cfg.K[0] != 1 || cfg.K[1] != 1 {
				dev++
			}
			if !cfg.Dist.Default {
				dev++
			}
			if cfg.Extra {
				dev++
			}
			if dev > 1 {
				return
			}
		}
		cc := &Case{Prop: "C06", Kind: "metamorphic", Params: M{"cfg": cfg}}
		s.Evals++
		s.Begin(cc)
		s.Report(c06Check(cc))
		if sampled < 1 && cfg.N == 3 && len(cfg.Types) == 2 {
			s.Sample(M{"instance": cfg, "request": c.Req})
			sampled++
		}
	})
}
