package props

import (
	"fmt"
	"math"
	"sort"

	. "rdmverif/engine"
)

// Majority heuristic: request generator shared by C01/C11 and the reference tournament of DESIGN.md A.4.

type majCfg struct {
	N        int
	Vals     [][]float64 // per alternative, per criterion
	Types    []string
	Weights  []float64
	Policy   string // "", allow, current, newer, random
	Current  string // "", id in considered, or "zz" (known, not considered)
	Random   bool
	ZVals    []float64
	ChoseAll bool
	Reverse  bool // list choseToMake (and knownAlternatives) in descending id order
}

func majRequest(cfg majCfg) M {
	m := len(cfg.Types)
	var crits L
	w := M{}
	for j := 0; j < m; j++ {
		id := fmt.Sprintf("c%d", j+1)
		crits = append(crits, crit(id, cfg.Types[j]))
		w[id] = cfg.Weights[j]
	}
	var ka L
	var chose []string
	for i := 0; i < cfg.N; i++ {
		cv := map[string]float64{}
		for j := 0; j < m; j++ {
			cv[fmt.Sprintf("c%d", j+1)] = cfg.Vals[i][j]
		}
		ka = append(ka, alt(ids6[i], cv))
		chose = append(chose, ids6[i])
	}
	if cfg.Reverse {
		for i, j := 0, len(chose)-1; i < j; i, j = i+1, j-1 {
			chose[i], chose[j] = chose[j], chose[i]
			ka[i], ka[j] = ka[j], ka[i]
		}
	}
	zv := map[string]float64{}
	for j := 0; j < m; j++ {
		v := 1.0
		if cfg.ZVals != nil {
			v = cfg.ZVals[j]
		}
		zv[fmt.Sprintf("c%d", j+1)] = v
	}
	ka = append(ka, alt("zz", zv))
	mp := M{"weights": w, "randomSeed": 11}
	if cfg.Policy != "" {
		mp["drawResolution"] = cfg.Policy
	}
	if cfg.Current != "" {
		mp["currentChoice"] = cfg.Current
	}
	if cfg.Random {
		mp["randomAlternativesOrdering"] = true
	}
	return M{"preferenceFunction": "majorityHeuristic", "knownAlternatives": ka, "choseToMake": strs(chose), "criteria": crits, "methodParameters": mp}
}

type majEntry struct {
	ID       string
	Value    float64
	With     string
	WithVal  float64
	Champion bool
}

// majData is what the oracle needs, extracted from a (round-tripped) request.
type majData struct {
	vals    map[string]map[string]float64
	crits   []string
	sign    map[string]float64
	weight  map[string]float64
	policy  string
	current string
	random  bool
	chose   []string
}

func majExtract(req M) majData {
	d := majData{vals: map[string]map[string]float64{}, sign: map[string]float64{}, weight: map[string]float64{}}
	for _, a := range asL(req["knownAlternatives"]) {
		am := asM(a)
		cv := map[string]float64{}
		for k, v := range asM(am["criteria"]) {
			cv[k] = asF(v)
		}
		d.vals[asS(am["id"])] = cv
	}
	for _, c := range asL(req["criteria"]) {
		id := asS(asM(c)["id"])
		d.crits = append(d.crits, id)
		d.sign[id] = 1
		if asS(asM(c)["type"]) == "cost" {
			d.sign[id] = -1
		}
	}
	mp := asM(req["methodParameters"])
	for k, v := range asM(mp["weights"]) {
		d.weight[k] = asF(v)
	}
	d.policy = asS(mp["drawResolution"])
	if d.policy == "" {
		d.policy = "allow"
	}
	d.current = asS(mp["currentChoice"])
	d.random, _ = mp["randomAlternativesOrdering"].(bool)
	d.chose = toStrings(req["choseToMake"])
	return d
}

func (d *majData) score(x, y string) float64 {
	t := 0.0
	for _, c := range d.crits {
		if d.sign[c]*d.vals[x][c] > d.sign[c]*d.vals[y][c]+1e-6 {
			t += d.weight[c]
		}
	}
	return t
}

// tournament runs the reference for one search order and one coin sequence (true = newer wins); returns the
// drop-out groups in order of dropping out, the last group being the undefeated champion's.
func (d *majData) tournament(order []string, coins []bool) (groups [][]majEntry, coinsUsed int) {
	champ := order[0]
	var buffer []majEntry
	dropChamp := func(by string, s1, s2 float64) {
		g := append(buffer, majEntry{ID: champ, Value: s1, With: by, WithVal: s2})
		groups = append(groups, g)
		buffer = nil
		champ = by
	}
	for _, x := range order[1:] {
		s1, s2 := d.score(champ, x), d.score(x, champ)
		switch {
		case math.Abs(s1-s2) <= 1e-6:
			pol := d.policy
			if pol == "random" {
				newer := false
				if coinsUsed < len(coins) {
					newer = coins[coinsUsed]
				}
				coinsUsed++
				if newer {
					pol = "newer"
				} else {
					pol = "current"
				}
			}
			switch pol {
			case "allow":
				buffer = append(buffer, majEntry{ID: x, Value: s2, With: champ, WithVal: s1})
			case "current":
				groups = append(groups, []majEntry{{ID: x, Value: s2, With: champ, WithVal: s1}})
			case "newer":
				dropChamp(x, s1, s2)
			}
		case s2 < s1:
			groups = append(groups, []majEntry{{ID: x, Value: s2, With: champ, WithVal: s1}})
		default:
			dropChamp(x, s1, s2)
		}
	}
	groups = append(groups, append(buffer, majEntry{ID: champ, Champion: true}))
	return
}

// matches reports whether the response is the reversed drop-out sequence of groups (order inside a group free).
func majMatches(resp *Response, groups [][]majEntry) bool {
	pos := 0
	for gi := len(groups) - 1; gi >= 0; gi-- {
		g := groups[gi]
		if pos+len(g) > len(resp.Result) {
			return false
		}
		block := resp.Result[pos : pos+len(g)]
		pos += len(g)
		used := make([]bool, len(g))
	next:
		for _, e := range block {
			for k, x := range g {
				if used[k] || x.ID != e.Alternative.ID {
					continue
				}
				if !x.Champion {
					if asF(e.Evaluation["value"]) != x.Value || asS(e.Evaluation["comparedWith"]) != x.With || asF(e.Evaluation["comparedAlternativeValue"]) != x.WithVal {
						return false
					}
				}
				used[k] = true
				continue next
			}
			return false
		}
	}
	return pos == len(resp.Result)
}

// majOracle checks T1 (stated invariants) and T2 (agreement with the reference tournament; existential over
// admissible search orders / coin sequences where the statement leaves them open).
func majOracle(c *Case, req M, resp *Response) []Violation {
	d := majExtract(req)
	var vs []Violation
	// result entries carry the values the method saw
	for _, e := range resp.Result {
		cv := map[string]float64{}
		for k, v := range e.Alternative.Criteria {
			cv[k] = v
		}
		d.vals[e.Alternative.ID] = cv
	}
	rank := map[string]int{}
	for i, e := range resp.Result {
		rank[e.Alternative.ID] = i
	}
	// T1
	champions := 0
	for i, e := range resp.Result {
		id := e.Alternative.ID
		with := asS(e.Evaluation["comparedWith"])
		if with == "" {
			champions++
			continue
		}
		if _, ok := rank[with]; !ok {
			vs = append(vs, viol(c, "C11/opponent-unknown", "entry %s names opponent %s which is not in the result", id, with))
			continue
		}
		if _, has := e.Evaluation["comparedAlternativeValue"].(float64); !has {
			vs = append(vs, viol(c, "C11/score-not-reported", "entry %s names opponent %s but carries no comparedAlternativeValue (keys %v)", id, with, mapKeys(e.Evaluation)))
		}
		if _, has := e.Evaluation["value"].(float64); !has {
			vs = append(vs, viol(c, "C11/score-not-reported", "entry %s names opponent %s but carries no value (keys %v)", id, with, mapKeys(e.Evaluation)))
		}
		v, ov := asF(e.Evaluation["value"]), asF(e.Evaluation["comparedAlternativeValue"])
		if v != d.score(id, with) || ov != d.score(with, id) {
			vs = append(vs, viol(c, "C11/scores", "entry %s vs %s reports scores (%v,%v), recomputed (%v,%v)", id, with, v, ov, d.score(id, with), d.score(with, id)))
		}
		if v > ov+1e-6 {
			vs = append(vs, viol(c, "C11/scored-higher", "entry %s scored %v, higher than the opponent %s it dropped out against (%v)", id, v, with, ov))
		}
		if rank[with] > i && !(d.policy == "allow" && math.Abs(v-ov) <= 1e-6) {
			vs = append(vs, viol(c, "C11/ranked-above-opponent", "entry %s is ranked above its opponent %s", id, with))
		}
	}
	if champions != 1 {
		vs = append(vs, viol(c, "C11/champion-count", "%d entries name no opponent; exactly the undefeated alternative must", champions))
	} else if len(resp.Result) > 0 && asS(resp.Result[0].Evaluation["comparedWith"]) != "" {
		vs = append(vs, viol(c, "C11/champion-not-first", "the ranking starts with %s, which dropped out against %s; the undefeated alternative comes first", resp.Result[0].Alternative.ID, asS(resp.Result[0].Evaluation["comparedWith"])))
	}
	// T2
	first := ""
	rest := append([]string{}, d.chose...)
	if d.current != "" {
		first = d.current
		for i, x := range rest {
			if x == first {
				rest = append(rest[:i:i], rest[i+1:]...)
				break
			}
		}
	}
	try := func(order []string) bool {
		if d.policy != "random" {
			g, _ := d.tournament(order, nil)
			return majMatches(resp, g)
		}
		// DFS over coin sequences (length = number of draws actually met)
		var rec func(coins []bool) bool
		rec = func(coins []bool) bool {
			g, used := d.tournament(order, coins)
			if used <= len(coins) {
				return majMatches(resp, g)
			}
			return rec(append(append([]bool{}, coins...), false)) || rec(append(append([]bool{}, coins...), true))
		}
		return rec(nil)
	}
	ok := false
	if !d.random {
		var order []string
		if first != "" {
			order = append([]string{first}, rest...)
		} else {
			order = rest
		}
		ok = try(order)
	} else {
		Permutations(len(rest), func(p []int) {
			if ok {
				return
			}
			var order []string
			if first != "" {
				order = append(order, first)
			}
			order = append(order, permute(rest, p)...)
			if try(order) {
				ok = true
			}
		})
	}
	if !ok {
		var got []string
		for _, e := range resp.Result {
			got = append(got, fmt.Sprintf("%s(%v|%v|%v)", e.Alternative.ID, e.Evaluation["value"], e.Evaluation["comparedWith"], e.Evaluation["comparedAlternativeValue"]))
		}
		sig := "C11/tournament"
		if d.random {
			sig = "C11/tournament-random-order"
		}
		vs = append(vs, viol(c, sig, "response %v is not the reversed drop-out sequence of the pairwise tournament (policy %s, current %q, random order %v)", got, d.policy, d.current, d.random))
	}
	return vs
}

func majExpectedIDs(req M) []string {
	d := majExtract(req)
	ids := append([]string{}, d.chose...)
	if d.current != "" && !contains(ids, d.current) {
		ids = append(ids, d.current)
	}
	sort.Strings(ids)
	return ids
}
