package props

import (
	"bufio"
	"encoding/json"
	"fmt"
	"os"
	"os/exec"
	"path/filepath"
	"strings"

	. "rdmverif/engine"
)

// Fresh processes (DESIGN.md 3.5): a list of requests is answered, in the given order, by a new process of this very
// binary; the parent compares the answers with its own. Whatever a process remembers from earlier requests (memo
// tables, pooled buffers, cached generators) is empty there, and the order of the list is the history of that process.

// FreshMain is the child: one request per line of the file, one "FRESH <accepted> <hash>" line per request.
func FreshMain(path string) int {
	f, err := os.Open(path)
	if err != nil {
		return 2
	}
	defer f.Close()
	sc := bufio.NewScanner(f)
	sc.Buffer(make([]byte, 1<<20), 1<<26)
	w := bufio.NewWriter(os.Stdout)
	defer w.Flush()
	for sc.Scan() {
		out := Decide([]byte(sc.Text()), nil)
		fmt.Fprintf(w, "FRESH %v %s\n", out.Accepted, bodyHash(out.Body))
	}
	return 0
}

type freshAnswer struct {
	Accepted bool
	Hash     string
}

// freshAnswers runs the requests in a fresh process, in this order.
func freshAnswers(reqs []M) ([]freshAnswer, error) {
	dir, err := os.MkdirTemp(os.Getenv("VERIF_BUILD_DIR"), "fresh-")
	if err != nil {
		return nil, err
	}
	defer os.RemoveAll(dir)
	var sb strings.Builder
	for _, r := range reqs {
		b, _ := json.Marshal(r)
		sb.Write(b)
		sb.WriteByte('\n')
	}
	file := filepath.Join(dir, "requests.jsonl")
	if err := os.WriteFile(file, []byte(sb.String()), 0o644); err != nil {
		return nil, err
	}
	self, _ := os.Executable()
	cmd := exec.Command(self, "fresh", file)
	cmd.Env = append(os.Environ(), "GOMAXPROCS=2")
	out, err := cmd.Output()
	if err != nil {
		return nil, fmt.Errorf("fresh process failed: %v", err)
	}
	var res []freshAnswer
	for _, l := range strings.Split(string(out), "\n") {
		if !strings.HasPrefix(l, "FRESH ") {
			continue
		}
		var a freshAnswer
		fmt.Sscanf(l, "FRESH %t %s", &a.Accepted, &a.Hash)
		res = append(res, a)
	}
	if len(res) != len(reqs) {
		return nil, fmt.Errorf("fresh process answered %d of %d requests", len(res), len(reqs))
	}
	return res, nil
}

// seededOrderRepeatable: the search order under randomAlternativesOrdering is a function of the request's seed — the
// same request gives the same answer the first, second and third time in this process and as the first request of a
// fresh one (a generator that is kept between requests continues its stream instead).
func seededOrderRepeatable(c *Case, prop string) []Violation {
	body := J(c.Req)
	first := Decide(body, nil)
	if !first.Accepted {
		return []Violation{viol(c, prop+"/rejected", "valid request rejected: %s", first.Err)}
	}
	for i := 2; i <= 3; i++ {
		if again := Decide(body, nil); !again.Accepted || bodyHash(again.Body) != bodyHash(first.Body) {
			return []Violation{viol(c, prop+"/seeded-order-not-repeatable", "the same request with randomAlternativesOrdering and the same seed is answered differently the %d. time in one process", i)}
		}
	}
	ans, err := freshAnswers([]M{asM(roundTrip(c.Req))})
	if err != nil {
		stat("fresh_process_unavailable")
		return nil
	}
	stat("fresh_process_requests")
	if ans[0].Hash != bodyHash(first.Body) {
		return []Violation{viol(c, prop+"/seeded-order-not-repeatable", "the request with randomAlternativesOrdering is answered differently here and as the first request of a fresh process")}
	}
	return nil
}

// seededOrderCases: five alternatives whose ranking IS the search order (all accepted at the first level / all draws /
// all eliminated together), seeds 0..7.
func seededOrderCases(s *Shard, prop, method string, fn func(c *Case)) {
	five := L{}
	for i, id := range []string{"a", "b", "c", "d", "e"} {
		five = append(five, alt(id, map[string]float64{"c1": 1 + float64(i%2), "c2": 2, "c3": 3 - float64(i%2)}))
	}
	for seed := 0; seed < 8; seed++ {
		if !s.Take() {
			continue
		}
		r := rootRequest(method, false, false)
		r["knownAlternatives"] = five
		r["choseToMake"] = L{"a", "b", "c", "d", "e"}
		r = withMP(r, M{"randomAlternativesOrdering": true, "randomSeed": seed})
		switch method {
		case "satisfactionHeuristic":
			r = withMP(r, M{"function": "thresholds", "params": M{"thresholds": L{M{"c1": 0.5, "c2": 9.0, "c3": 0.5}}}})
		case "majorityHeuristic":
			r = withMP(r, M{"weights": M{"c1": 1.0, "c2": 1.0, "c3": 1.0}, "drawResolution": "current"})
		}
		fn(&Case{Prop: prop, Kind: "seeded-order", Req: r})
	}
}
