package props

import (
	"fmt"

	. "rdmverif/engine"
)

// ELECTRE III: request encoding and an independent reference implementation (DESIGN.md A.3).

type thr struct {
	Q, P, V float64 // 0 = absent
}

var eleShapes = []thr{{}, {Q: 0.5}, {P: 1.5}, {Q: 0.5, P: 1.5}, {P: 0.5, V: 1.5}, {Q: 0.5, P: 1, V: 1.5}, {P: 1, V: 2}, {Q: 1}, {Q: 1, P: 2}} // the last three hit difference == p / v / q exactly

type distFn struct {
	A, B    float64
	Default bool
	Sparse  bool // keys whose value is zero are left out of the request
}

var eleDists = []distFn{{-0.15, 0.3, true, false}, {-0.15, 0.3, false, false}, {0, 0.125, false, false}, {-0.125, 0.25, false, false}, {0, 0.125, false, true}}

type eleCfg struct {
	N     int
	Vals  [][]float64
	Types []string
	Thr   []thr
	K     []float64
	Dist  distFn
	Order []int // listing permutation (nil = identity)
	Extra bool  // a known, not considered alternative
}

func eleRequest(cfg eleCfg) M {
	m := len(cfg.Types)
	cids := critIDs(m)
	var crits L
	ec := M{}
	for j, id := range cids {
		crits = append(crits, crit(id, cfg.Types[j]))
		e := M{"k": cfg.K[j]}
		if cfg.Thr[j].Q != 0 {
			e["q"] = M{"b": cfg.Thr[j].Q}
		}
		if cfg.Thr[j].P != 0 {
			e["p"] = M{"b": cfg.Thr[j].P}
		}
		if cfg.Thr[j].V != 0 {
			e["v"] = M{"b": cfg.Thr[j].V}
		}
		ec[id] = e
	}
	order := cfg.Order
	if order == nil {
		order = make([]int, cfg.N)
		for i := range order {
			order[i] = i
		}
	}
	var ka L
	var chose []string
	for _, i := range order {
		cv := map[string]float64{}
		for j, id := range cids {
			cv[id] = cfg.Vals[i][j]
		}
		ka = append(ka, alt(ids6[i], cv))
		chose = append(chose, ids6[i])
	}
	if cfg.Extra {
		cv := map[string]float64{}
		for _, id := range cids {
			cv[id] = 1
		}
		ka = append(L{alt("zz", cv)}, ka...)
	}
	mp := M{"electreCriteria": ec}
	if !cfg.Dist.Default {
		d := M{"a": cfg.Dist.A, "b": cfg.Dist.B}
		if cfg.Dist.Sparse {
			for k, v := range d {
				if asF(v) == 0 {
					delete(d, k)
				}
			}
		}
		mp["electreDistillation"] = d
	}
	return M{"preferenceFunction": "electreIII", "knownAlternatives": ka, "choseToMake": strs(chose), "criteria": crits, "methodParameters": mp}
}

// ---- reference -------------------------------------------------------------------------------------------

type eleCrit struct {
	ID      string
	Sign    float64
	K       float64
	Q, P, V float64
	HasQ    bool
	HasP    bool
	HasV    bool
}

func linVal(m map[string]interface{}) (float64, bool) {
	if m == nil {
		return 0, false
	}
	a, b := asF(m["a"]), asF(m["b"])
	if a == 0 && b == 0 {
		return 0, false
	}
	// constant thresholds only in this alphabet (a == 0)
	return b, true
}

func eleCritsFromReq(req M) []eleCrit {
	ec := asM(asM(req["methodParameters"])["electreCriteria"])
	var out []eleCrit
	for _, c := range asL(req["criteria"]) {
		cm := asM(c)
		id := asS(cm["id"])
		e := asM(ec[id])
		x := eleCrit{ID: id, Sign: 1, K: asF(e["k"])}
		if asS(cm["type"]) == "cost" {
			x.Sign = -1
		}
		x.Q, x.HasQ = linVal(asM(e["q"]))
		x.P, x.HasP = linVal(asM(e["p"]))
		x.V, x.HasV = linVal(asM(e["v"]))
		out = append(out, x)
	}
	return out
}

// refSigma: credibility of "a outranks b".
func refSigma(a, b map[string]float64, crits []eleCrit) float64 {
	cs := make([]float64, len(crits))
	ds := make([]float64, len(crits))
	sumK, sumKC := 0.0, 0.0
	for i, c := range crits {
		delta := c.Sign*b[c.ID] - c.Sign*a[c.ID] // how much b beats a
		q0, p0 := 0.0, 0.0
		if c.HasQ {
			q0 = c.Q
		}
		if c.HasP {
			p0 = c.P
		}
		switch {
		case delta <= 0:
			cs[i] = 1
		case c.HasQ && delta <= c.Q:
			cs[i] = 1
		case c.HasP && delta <= c.P:
			cs[i] = 1 - (delta-q0)/(c.P-q0)
		case c.HasV && delta <= c.V:
			ds[i] = (delta - p0) / (c.V - p0)
		case c.HasV:
			ds[i] = 1
		}
		sumK += c.K
		sumKC += c.K * cs[i]
	}
	C := sumKC / sumK
	s := C
	for i := range crits {
		if ds[i] > C {
			s *= (1 - ds[i]) / (1 - C)
		}
	}
	return s
}

func distS(d distFn, x float64) float64 {
	if d.A == 0 && d.B == 0 {
		return 0
	}
	return d.A*x + d.B
}

// refDistil returns the class number (1 = first extracted) of every index; bestFirst selects max qualification.
func refDistil(sigma [][]float64, d distFn, bestFirst bool) []int {
	n := len(sigma)
	class := make([]int, n)
	in := make([]bool, n)
	left := n
	for i := range in {
		in[i] = true
	}
	cls := 1
	for left > 0 {
		lambda := 0.0
		for x := 0; x < n; x++ {
			for y := 0; y < n; y++ {
				if x != y && in[x] && in[y] && sigma[x][y] > lambda {
					lambda = sigma[x][y]
				}
			}
		}
		if lambda == 0 {
			for x := 0; x < n; x++ {
				if in[x] {
					class[x] = cls
				}
			}
			break
		}
		D := make([]bool, n)
		copy(D, in)
		for {
			thrv := lambda - distS(d, lambda)
			next := 0.0
			for x := 0; x < n; x++ {
				for y := 0; y < n; y++ {
					if x != y && D[x] && D[y] && sigma[x][y] < thrv && sigma[x][y] > next {
						next = sigma[x][y]
					}
				}
			}
			q := make([]int, n)
			for x := 0; x < n; x++ {
				for y := 0; y < n; y++ {
					if x == y || !D[x] || !D[y] {
						continue
					}
					v := sigma[x][y]
					if v > next && v > sigma[y][x]+distS(d, v) {
						q[x]++
						q[y]--
					}
				}
			}
			first := true
			ext := 0
			for x := 0; x < n; x++ {
				if !D[x] {
					continue
				}
				if first || (bestFirst && q[x] > ext) || (!bestFirst && q[x] < ext) {
					ext = q[x]
					first = false
				}
			}
			cnt := 0
			ND := make([]bool, n)
			for x := 0; x < n; x++ {
				if D[x] && q[x] == ext {
					ND[x] = true
					cnt++
				}
			}
			D = ND
			if cnt == 1 || next == 0 {
				break
			}
			lambda = next
		}
		for x := 0; x < n; x++ {
			if D[x] {
				class[x] = cls
				in[x] = false
				left--
			}
		}
		cls++
	}
	return class
}

type eleExpect struct {
	Asc, Desc map[string]int
	Links     map[string][]string
}

func refElectre(ids []string, vals map[string]map[string]float64, crits []eleCrit, d distFn) eleExpect {
	n := len(ids)
	sigma := make([][]float64, n)
	for i := range sigma {
		sigma[i] = make([]float64, n)
		for j := range sigma[i] {
			if i != j {
				sigma[i][j] = refSigma(vals[ids[i]], vals[ids[j]], crits)
			}
		}
	}
	return refFromSigma(ids, sigma, d)
}

func refFromSigma(ids []string, sigma [][]float64, d distFn) eleExpect {
	n := len(ids)
	asc := refDistil(sigma, d, true)
	wf := refDistil(sigma, d, false)
	mx := 0
	for _, c := range wf {
		if c > mx {
			mx = c
		}
	}
	e := eleExpect{Asc: map[string]int{}, Desc: map[string]int{}, Links: map[string][]string{}}
	for i, id := range ids {
		e.Asc[id] = asc[i]
		e.Desc[id] = mx + 1 - wf[i]
	}
	for i := 0; i < n; i++ {
		for j := 0; j < n; j++ {
			if i != j && e.Asc[ids[i]] <= e.Asc[ids[j]] && e.Desc[ids[i]] <= e.Desc[ids[j]] {
				e.Links[ids[i]] = append(e.Links[ids[i]], ids[j])
			}
		}
	}
	return e
}

func eleDistFromReq(req M) distFn {
	dm := asM(asM(req["methodParameters"])["electreDistillation"])
	if dm == nil {
		return distFn{A: -0.15, B: 0.3, Default: true}
	}
	return distFn{A: asF(dm["a"]), B: asF(dm["b"])}
}

func eleCompare(c *Case, prefix string, resp *Response, exp eleExpect, listing []string) []Violation {
	var vs []Violation
	var got []string
	for _, e := range resp.Result {
		got = append(got, e.Alternative.ID)
	}
	if fmt.Sprint(got) != fmt.Sprint(listing) {
		vs = append(vs, viol(c, prefix+"/result-ids", "result lists %v, considered alternatives are %v", got, listing))
		return vs
	}
	for _, e := range resp.Result {
		id := e.Alternative.ID
		a, d := int(asF(e.Evaluation["ascendingIndex"])), int(asF(e.Evaluation["descendingIndex"]))
		if a != exp.Asc[id] || d != exp.Desc[id] {
			vs = append(vs, viol(c, prefix+"/indices", "alternative %s: (ascendingIndex,descendingIndex)=(%d,%d), ELECTRE III definition gives (%d,%d)", id, a, d, exp.Asc[id], exp.Desc[id]))
		}
	}
	// links must be exactly the pairs ordered by both reported indices
	ra, rd := map[string]int{}, map[string]int{}
	for _, e := range resp.Result {
		ra[e.Alternative.ID] = int(asF(e.Evaluation["ascendingIndex"]))
		rd[e.Alternative.ID] = int(asF(e.Evaluation["descendingIndex"]))
	}
	for _, e := range resp.Result {
		var want []string
		for _, o := range resp.Result {
			if o.Alternative.ID != e.Alternative.ID && ra[e.Alternative.ID] <= ra[o.Alternative.ID] && rd[e.Alternative.ID] <= rd[o.Alternative.ID] {
				want = append(want, o.Alternative.ID)
			}
		}
		if !sameSet(want, e.BetterThanOrSameAs) || hasDup(e.BetterThanOrSameAs) {
			vs = append(vs, viol(c, prefix+"/links", "alternative %s links %v, the reported indices imply %v", e.Alternative.ID, e.BetterThanOrSameAs, want))
		}
	}
	return vs
}
