package props

import (
	"math"

	. "rdmverif/engine"
	"rdmverif/svc"
)

// lastTransition steps through the request's biases (optionally under a scripted generator) and returns the last
// transition: state before, state after, the bias's report as a client sees it.
type trans struct {
	prev, next State
	rep        map[string]interface{} // {"name","applyProbability","props"}
	props      map[string]interface{}
	fired      bool
	failAt     int
	err        error
	st         *Stepper
	alteredAt  int
}

// alteredReport: a report of the named bias kind that was produced by an earlier stage of this request no longer reads
// as it did when it was produced (it no longer carries what that stage handed on).
func alteredReport(c *Case, id, biasName string, t trans, bs []interface{}) []Violation {
	if t.alteredAt < 0 || t.alteredAt >= len(bs) {
		return nil
	}
	if asS(asM(bs[t.alteredAt])["name"]) != biasName {
		stat("earlier_report_of_another_bias_altered(C09's subject)")
		return nil
	}
	return []Violation{viol(c, id+"/earlier-report-altered", "the report of bias %d (%s) was altered by a later stage: it no longer carries the values that stage handed on", t.alteredAt, biasName)}
}

func lastTransition(req M, script *svc.Script) trans {
	svc.SetScript(script)
	defer svc.SetScript(nil)
	st, step, failAt, err := runPath(req)
	t := trans{prev: step.prev, next: step.next, rep: step.report, fired: step.fired, failAt: failAt, err: err, st: st, alteredAt: step.alteredAt}
	if err != nil {
		t.alteredAt = -1
	}
	if step.report != nil {
		t.props = asM(step.report["props"])
	}
	return t
}

// prefixes for "after other biases": none, every core bias, and pairs over a 4-bias sub-core.
func statePrefixes(deep bool) [][]M {
	core := biasAlphabet(0)
	out := [][]M{nil}
	for _, b := range core {
		out = append(out, []M{b})
	}
	sub := []M{core[0], core[2], core[4], core[7]}
	if deep {
		sub = core
	}
	for _, a := range sub {
		for _, b := range sub {
			out = append(out, []M{a, b})
		}
	}
	return out
}

// ownPrefixes: the property's own bias applied earlier in the same request, followed by a bias that changes what it
// looked at (values, ranges, the criteria list) — anything the bias remembered from its first application is stale when
// it is applied again.
func ownPrefixes(own M) [][]M {
	core := biasAlphabet(0)
	return [][]M{{own, core[2]}, {own, core[7]}, {own, core[0]}, {own, core[4]}, {own, own}, {own, core[1]}}
}

func near(a, b float64) bool {
	return math.Abs(a-b) <= 1e-9*(1+math.Abs(a)+math.Abs(b))
}

func scaleAbout(lo, hi, s float64) (float64, float64) {
	d := (hi - lo) / 2
	return lo + d - d*s, hi - d + d*s
}

// boundRef: DESIGN A conventions — raise to 0 when negatives are disallowed, then clip into the range scaled about
// its centre when allowedValuesRangeScaling > 0.
func boundRef(x, lo, hi float64, scaling float64, nonneg bool) float64 {
	if nonneg && x < 0 {
		x = 0
	}
	if scaling > 0 {
		l, h := lo, hi
		if scaling != 1 {
			l, h = scaleAbout(lo, hi, scaling)
		}
		if x < l {
			x = l
		}
		if x > h {
			x = h
		}
	}
	return x
}

func boundingOf(p map[string]interface{}) (scaling float64, nonneg bool) {
	scaling = -1
	if v, ok := p["allowedValuesRangeScaling"]; ok {
		scaling = asF(v)
	}
	nonneg, _ = p["disallowNegativeValues"].(bool)
	return
}

// sameExcept reports the first difference between two states outside the given criteria (values), ignoring nothing else.
func valuesUnchangedExcept(prev, next State, except map[string]bool) (string, bool) {
	pv := map[string]map[string]float64{}
	for _, a := range prev.All() {
		pv[a.ID] = a.Values
	}
	for _, a := range next.All() {
		for k, v := range pv[a.ID] {
			if except[k] {
				continue
			}
			nv, ok := a.Values[k]
			if !ok || nv != v {
				return a.ID + "." + k, false
			}
		}
	}
	return "", true
}

func altIDs(as []StateAlt) []string {
	var o []string
	for _, a := range as {
		o = append(o, a.ID)
	}
	return o
}

func sameStrings(a, b []string) bool {
	if len(a) != len(b) {
		return false
	}
	for i := range a {
		if a[i] != b[i] {
			return false
		}
	}
	return true
}

func critsEqual(a, b []StateCrit) bool {
	if len(a) != len(b) {
		return false
	}
	for i := range a {
		if a[i] != b[i] {
			return false
		}
	}
	return true
}
