package props

import (
	"fmt"
	"math"
	"sort"

	. "rdmverif/engine"
)

// C16 — preference reversal mirrors the selected criteria inside their range (DESIGN.md 6.C16, A.9).

func init() {
	Register(&Property{
		ID: "C16", Level: "exploration",
		Rule: "E1/E2: 7 methods x {considered = known, subset} x valuesRange {declared, observed, observed with one strictly negative criterion} x starting state {root, after each of 12 core biases, after 16 pairs (thorough: 144)} " +
			"x ordering (5) x ratio {0.34,0.5,1,0} x min/max {-, min 1, max 1, min 2}; one real PreferenceReversal.Apply per case, compared with the reference: count k, v' = max+min-v for every known " +
			"alternative on the selected criteria (range = declared or observed over all known alternatives of the current state), report = criteria/ranges/new values, everything else identical, " +
			"observed ranges preserved, reversing the same criteria twice restores the data; for root states ordering weakest/strongest is checked against the documented importance. " +
			"distinct_nontrivial = distinct (start state, options) with at least one reversed criterion.",
		Assume: []string{"after prefix biases the selected criteria are taken from the report (count and set checked); importance-based selection is checked on root states only"},
		Run:    c16Run,
		Check:  c16Check,
	})
}

func c16Check(c *Case) []Violation {
	req := asM(roundTrip(c.Req))
	bs := asL(req["biases"])
	props := asM(asM(bs[len(bs)-1])["props"])
	t := lastTransition(req, nil)
	if t.err != nil && t.failAt >= 0 && t.failAt < len(bs)-1 {
		stat("prefix_failed(C07's subject)")
		return nil
	}
	var vs []Violation
	prev, next := t.prev, t.next
	n := len(prev.Criteria)
	if t.err != nil {
		// the state before the failing step is the stepper's current state
		n = len(StateOf(t.st.Current).Criteria)
	}
	k := int(math.Floor(float64(n) * asF(props["ratio"])))
	if v, ok := props["min"]; ok && k < int(asF(v)) {
		k = int(asF(v))
	} else if v, ok := props["max"]; ok && k > int(asF(v)) {
		k = int(asF(v))
	}
	if k > n {
		stat("outside_domain_min_above_criteria_count")
		return nil
	}
	if t.err != nil {
		return []Violation{viol(c, "C16/rejected", "preference reversal failed: %v", t.err)}
	}
	if v := alteredReport(c, "C16", "preferenceReversal", t, bs); v != nil {
		return v
	}
	reps := asL(t.props["reversedPreferenceCriteria"])
	if len(reps) != k {
		return []Violation{viol(c, "C16/count", "%d criteria reversed, expected k=%d of %d", len(reps), k, n)}
	}
	// "the same count/ordering rule as omission": a criteriaOmission with the very same options in place of the reversal
	// (same request, same earlier biases) takes exactly the criteria the reversal selects — whatever the ordering and seed
	if k > 0 && k < n {
		req2 := asM(deepCopy(req))
		bs2 := asL(req2["biases"])
		asM(bs2[len(bs2)-1])["name"] = "criteriaOmission"
		if t2 := lastTransition(M(req2), nil); t2.err == nil {
			var om, rv []string
			for _, o := range asL(t2.props["omittedCriteria"]) {
				om = append(om, asS(asM(o)["id"]))
			}
			for _, r := range reps {
				rv = append(rv, asS(asM(r)["id"]))
			}
			sort.Strings(om)
			sort.Strings(rv)
			if !sameStrings(om, rv) {
				vs = append(vs, viol(c, "C16/not-omissions-selection", "with options %v the reversal selects %v, an omission with the same options takes %v", props, rv, om))
			}
		} else {
			stat("omission_twin_failed")
		}
	}
	sel := map[string]bool{}
	for _, r := range reps {
		rm := asM(r)
		id := asS(rm["id"])
		cr, ok := prev.Crit(id)
		if !ok || sel[id] {
			vs = append(vs, viol(c, "C16/selected-unknown", "reported reversed criterion %q is not a (distinct) current criterion %v", id, prev.CritIDs()))
			continue
		}
		sel[id] = true
		lo, hi := prev.Range(cr)
		vr := asM(rm["valuesRange"])
		typ := "gain"
		if cr.Cost {
			typ = "cost"
		}
		if asF(vr["min"]) != lo || asF(vr["max"]) != hi || (asS(rm["type"]) == "cost") != cr.Cost {
			vs = append(vs, viol(c, "C16/report-range", "criterion %s reported with type %v range %v; its type is %s and its range (declared or observed over all known alternatives) is [%v,%v]", id, rm["type"], vr, typ, lo, hi))
		}
		av := asM(rm["alternativesValues"])
		for _, a := range prev.All() {
			want := hi - a.Values[id] + lo
			var got float64
			for _, na := range next.All() {
				if na.ID == a.ID {
					got = na.Values[id]
				}
			}
			if !nearScale(got, want, math.Max(math.Abs(hi), math.Max(math.Abs(lo), math.Abs(a.Values[id])))) {
				vs = append(vs, viol(c, "C16/mirror", "alternative %s criterion %s: value %v became %v, expected max+min-v = %v (range [%v,%v])", a.ID, id, a.Values[id], got, want, lo, hi))
			}
			if rv, ok := av[a.ID]; !ok || asF(rv) != got {
				vs = append(vs, viol(c, "C16/report-values", "report lists %v for alternative %s on %s, the value handed on is %v", av[a.ID], a.ID, id, got))
			}
		}
		if len(av) != len(prev.All()) {
			vs = append(vs, viol(c, "C16/report-values", "report lists values for %d alternatives, %d are known", len(av), len(prev.All())))
		}
		// range preserved
		ncr, _ := next.Crit(id)
		nlo, nhi := next.Range(ncr)
		if !nearScale(nlo, lo, math.Max(math.Abs(lo), math.Abs(hi))) || !nearScale(nhi, hi, math.Max(math.Abs(lo), math.Abs(hi))) {
			if !cr.HasRange {
				vs = append(vs, viol(c, "C16/range-not-preserved", "criterion %s: observed range [%v,%v] became [%v,%v]", id, lo, hi, nlo, nhi))
			}
		}
	}
	if where, ok := valuesUnchangedExcept(prev, next, sel); !ok {
		vs = append(vs, viol(c, "C16/other-values-changed", "value %s changed although its criterion was not selected", where))
	}
	if !critsEqual(prev.Criteria, next.Criteria) || prev.Params != next.Params {
		vs = append(vs, viol(c, "C16/criteria-or-params-changed", "criteria list or method parameters changed: %v -> %v", prev.CritIDs(), next.CritIDs()))
	}
	if !sameStrings(altIDs(prev.Considered), altIDs(next.Considered)) || !sameStrings(altIDs(prev.NotConsidered), altIDs(next.NotConsidered)) {
		vs = append(vs, viol(c, "C16/split-changed", "considered/not considered changed"))
	}
	for _, a := range next.All() {
		if len(a.Values) != len(prevValues(prev, a.ID)) {
			vs = append(vs, viol(c, "C16/value-set-changed", "alternative %s has %d values after reversal, %d before", a.ID, len(a.Values), len(prevValues(prev, a.ID))))
		}
	}
	// importance-based selection on root states
	if len(bs) == 1 {
		if imp := rootImportance(req); imp != nil {
			ord := asS(props["ordering"])
			for id := range sel {
				for _, o := range prev.CritIDs() {
					if sel[o] {
						continue
					}
					if (ord == "" || ord == "weakest") && imp[o] < imp[id]-1e-9 {
						vs = append(vs, viol(c, "C16/weakest-order", "reversed %s (importance %v) but not the less important %s (%v)", id, imp[id], o, imp[o]))
					}
					if ord == "strongest" && imp[o] > imp[id]+1e-9 {
						vs = append(vs, viol(c, "C16/strongest-order", "reversed %s (importance %v) but not the more important %s (%v)", id, imp[id], o, imp[o]))
					}
				}
			}
		}
	}
	// reversing the same criteria a second time restores the data
	if k > 0 && len(vs) == 0 {
		req2 := withBiases(req, append(biasList(req), M{"name": "preferenceReversal", "props": M{"ratio": 0.0, "min": 0}}))
		_ = req2
		again := M{}
		for kk, v := range props {
			again[kk] = v
		}
		// pin the same criteria: apply the identical bias again only when the selection is deterministic for it
		ord := asS(props["ordering"])
		if ord == "" || ord == "weakest" || ord == "strongest" {
			req3 := withBiases(req, append(biasList(req), M{"name": "preferenceReversal", "props": again}))
			t2 := lastTransition(asM(roundTrip(req3)), nil)
			if t2.err != nil {
				vs = append(vs, viol(c, "C16/second-reversal-failed", "%v", t2.err))
			} else {
				sel2 := map[string]bool{}
				for _, r := range asL(t2.props["reversedPreferenceCriteria"]) {
					sel2[asS(asM(r)["id"])] = true
				}
				if fmt.Sprint(sel2) == fmt.Sprint(sel) {
					for _, a := range prev.All() {
						for _, na := range t2.next.All() {
							if na.ID != a.ID {
								continue
							}
							for cid, v := range a.Values {
								sc := math.Abs(v)
								if pcr, ok := prev.Crit(cid); ok {
									plo, phi := prev.Range(pcr)
									sc = math.Max(sc, math.Max(math.Abs(plo), math.Abs(phi)))
								}
								if !nearScale(na.Values[cid], v, 8*sc) {
									vs = append(vs, viol(c, "C16/not-involutive", "reversing %v twice leaves %s.%s = %v instead of %v", prev.CritIDs(), a.ID, cid, na.Values[cid], v))
								}
							}
						}
					}
				} else {
					stat("second_reversal_selected_other_criteria")
				}
			}
		}
	}
	if cur != nil {
		cur.Outcome(k > 0, prev.Canon(), fmt.Sprint(props))
	}
	return vs
}

func biasList(req M) []M {
	var out []M
	for _, b := range asL(req["biases"]) {
		out = append(out, asM(b))
	}
	return out
}

func prevValues(s State, id string) map[string]float64 {
	for _, a := range s.All() {
		if a.ID == id {
			return a.Values
		}
	}
	return nil
}

// rootImportance: documented importance (A.8) of the declared criteria of a request (considered alternatives only).
func rootImportance(req M) map[string]float64 {
	method := asS(req["preferenceFunction"])
	chose := toStrings(req["choseToMake"])
	vals := map[string]map[string]float64{}
	for _, a := range asL(req["knownAlternatives"]) {
		m := map[string]float64{}
		for k, v := range asM(asM(a)["criteria"]) {
			m[k] = asF(v)
		}
		vals[asS(asM(a)["id"])] = m
	}
	var cids []string
	for _, c := range asL(req["criteria"]) {
		cids = append(cids, asS(asM(c)["id"]))
	}
	w := map[string]float64{}
	for _, c := range cids {
		if x, ok := rootWeight(req, c); ok {
			w[c] = x
		}
	}
	imp := map[string]float64{}
	switch method {
	case "weightedSum":
		for _, c := range cids {
			for _, a := range chose {
				imp[c] += w[c] * vals[a][c]
			}
		}
	case "owa", "satisfactionHeuristic":
		for _, c := range cids {
			for _, a := range chose {
				imp[c] += vals[a][c]
			}
		}
	case "majorityHeuristic", "aspectEliminationHeuristic", "electreIII":
		for _, c := range cids {
			imp[c] = w[c]
		}
	default:
		return nil // Choquet: covered by C15's decomposition reference
	}
	return imp
}

func c16Run(s *Shard) {
	cur = s
	// many criteria with ratios whose float product with the criteria count lands just below a whole number
	for _, e := range floorEdgeCounts() {
		for _, method := range []string{"weightedSum", "majorityHeuristic", "electreIII"} {
			for _, o := range []string{"", "strongest", "random"} {
				if !s.Take() {
					continue
				}
				p := M{"ratio": e[1], "randomSeed": 4}
				if o != "" {
					p["ordering"] = o
				}
				c := &Case{Prop: "C16", Kind: "reversal", Req: withBiases(wideRequest(method, int(e[0])), []M{bias("preferenceReversal", p)})}
				s.Evals++
				s.Begin(c)
				s.Report(c16Check(c))
			}
		}
	}
	prefixes := statePrefixes(!quick(s))
	// inserted right after the single-bias prefixes, so that every data variant of the roots runs them too
	ownP := ownPrefixes(bias("preferenceReversal", M{"ratio": 1.0}))
	prefixes = append(append(append([][]M{}, prefixes[:13]...), ownP...), prefixes[13:]...)
	ords := []string{"", "weakest", "strongest", "random", "weakestByProbability", "strongestByProbability"}
	type rm struct {
		ratio    float64
		min, max int
	}
	rms := []rm{{0.34, -1, -1}, {0.5, -1, -1}, {1, -1, -1}, {0, -1, -1}, {0, 1, -1}, {1, -1, 1}, {0.34, 2, -1}, {0.67, -1, 2}, {0.5, -1, 3}} // the last two: a maximum below the number of criteria that does not bind (the share is taken of all criteria, then capped)
	sampled := false
	for _, method := range allMethods {
		for _, subset := range []bool{false, true} {
			for variant := 0; variant < 11; variant++ { // observed range, declared range, c1 strictly negative, c3 single-valued, undeclared extra values, c3 at 1e-9 scale, never-considered alternatives beyond both ends
				root := rootRequest(method, subset, variant == 1)
				if variant == 2 {
					root = negativeVariant(root)
				}
				if variant == 3 {
					for _, a := range asL(root["knownAlternatives"]) {
						asM(asM(a)["criteria"])["c3"] = 2.0
					}
				}
				if variant == 5 {
					root = tinyVariant(root)
				}
				if variant == 6 {
					root = wideVariant(root)
				}
				if variant == 8 {
					if method == "choquetIntegral" {
						continue
					}
					root = typelessVariant(root)
				}
				if variant == 9 || variant == 10 {
					// one / two known alternatives (fewer alternatives than criteria), declared and observed ranges
					if subset {
						continue
					}
					keep := 11 - variant // 2 known for variant 9, 1 for variant 10
					root = rootRequest(method, false, true)
					root["knownAlternatives"] = asL(root["knownAlternatives"])[:keep]
					root["choseToMake"] = asL(root["choseToMake"])[:keep]
					if variant == 9 {
						for _, cr := range asL(root["criteria"]) {
							if asS(asM(cr)["id"]) == "c2" {
								delete(asM(cr), "valuesRange")
							}
						}
					}
				}
				if variant == 7 {
					// nobody is considered (an explicitly empty choseToMake): every alternative is "known only"
					if subset || method == "majorityHeuristic" || method == "satisfactionHeuristic" || method == "aspectEliminationHeuristic" {
						continue
					}
					root["choseToMake"] = L{}
				}
				if variant == 4 {
					if method == "weightedSum" || method == "owa" || method == "choquetIntegral" {
						continue // these methods reject values for undeclared criteria
					}
					for i, a := range asL(root["knownAlternatives"]) {
						asM(asM(a)["criteria"])["undeclared"] = float64(i) + 0.5
					}
				}
				for pi, pre := range prefixes {
					if variant >= 2 && pi > 12+len(ownP) {
						continue
					}
					if !s.Take() {
						continue
					}
					for _, o := range ords {
						for _, x := range rms {
							p := M{"ratio": x.ratio, "randomSeed": 4}
							if o != "" {
								p["ordering"] = o
							}
							if x.min >= 0 {
								p["min"] = x.min
							}
							if x.max >= 0 {
								p["max"] = x.max
							}
							req := withBiases(root, append(append([]M{}, pre...), bias("preferenceReversal", p)))
							c := &Case{Prop: "C16", Kind: "reversal", Req: req}
							s.Evals++
							s.Begin(c)
							s.Report(c16Check(c))
							if !sampled && len(pre) == 1 {
								s.Sample(M{"request": req})
								sampled = true
							}
						}
					}
				}
			}
		}
	}
}
