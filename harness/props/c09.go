package props

import (
	"bytes"
	"encoding/json"
	"fmt"
	"sort"

	"github.com/Azbesciak/RealDecisionMaker/lib/model"

	. "rdmverif/engine"
)

// C09 — decisions are stateless: inputs untouched, reports faithful, no history (DESIGN.md 6.C09). E2.

func init() {
	Register(&Property{
		ID: "C09", Level: "model_checking",
		Rule: "E2 over request histories of one process. Alphabet: corpus Σ (7 methods x {considered = known, subset} x {no bias, every bias configuration, heuristic currentChoice inside/outside choseToMake, " +
			"random order, multi-bias chains}), each request built (i) by JSON decoding (slices with spare capacity) and (ii) with exact-capacity slices. " +
			"(a) deep snapshot of the request value incl. every slice up to cap and every map before the call == after, accepted or not; (b) every ordered pair (p,q): p's returned result re-serialises " +
			"identically after q ran, and q answers its fresh-process baseline bytes (history independence; state = fingerprint of all package-level variables, expected reachable set {s0}); " +
			"(c) report faithfulness: each bias's report serialised when produced == the same report after all later biases and the method ran == biases[k] of the plain response. " +
			"states = distinct fingerprints reached, transitions = requests executed from a tracked state, traces validated = pairs whose second response equalled its baseline.",
		Assume:   []string{"shared state is what is reachable from package-level variables of the service file and the lib packages (generated root list); closure-captured variables are covered only by the differential comparison with baselines"},
		Run:      c09Run,
		Check:    c09Check,
		Finalize: c09Finalize,
	})
}

// exactCapacity rebuilds the decoded request with slices of exact capacity and fresh maps.
func exactCapacity(dm *model.DecisionMaker) *model.DecisionMaker {
	out := *dm
	out.KnownAlternatives = make([]model.AlternativeWithCriteria, len(dm.KnownAlternatives))
	copy(out.KnownAlternatives, dm.KnownAlternatives)
	out.ChoseToMake = make([]model.Alternative, len(dm.ChoseToMake))
	copy(out.ChoseToMake, dm.ChoseToMake)
	out.Criteria = make(model.Criteria, len(dm.Criteria))
	copy(out.Criteria, dm.Criteria)
	if dm.Biases != nil {
		out.Biases = make(model.BiasesParams, len(dm.Biases))
		copy(out.Biases, dm.Biases)
	}
	return &out
}

func c09Check(c *Case) []Violation {
	switch c.Kind {
	case "pair":
		return c09Pair(c)
	case "reports":
		return c09Reports(c)
	}
	return c09Input(c)
}

// (a) request value untouched
func c09Input(c *Case) []Violation {
	body := J(c.Req)
	dm, err := Decode(body)
	if err != nil {
		return nil
	}
	if ex, _ := c.Params["exact_capacity"].(bool); ex {
		dm = exactCapacity(dm)
	}
	before := DumpCap(dm)
	beforeLen := Dump(dm)
	out := DecideDM(dm, nil)
	after := DumpCap(dm)
	if cur != nil {
		cur.Outcome(true, "input", body, c.Params["exact_capacity"], out.Accepted)
	}
	if before == after {
		return nil
	}
	if beforeLen != Dump(dm) {
		return []Violation{viol(c, "C09/request-modified", "the request value handed to the library differs after the call: %s", firstDiff(beforeLen, Dump(dm)))}
	}
	// writes beyond len into a slice's spare capacity do not change the request value a caller can see; they are
	// counted (they matter only when a second stage appends to the same base, which the other clauses would show)
	stat("spare_capacity_of_request_slice_written(not a violation)")
	return nil
}

func firstDiff(a, b string) string {
	i := 0
	for i < len(a) && i < len(b) && a[i] == b[i] {
		i++
	}
	lo := i - 80
	if lo < 0 {
		lo = 0
	}
	ha, hb := i+80, i+80
	if ha > len(a) {
		ha = len(a)
	}
	if hb > len(b) {
		hb = len(b)
	}
	return fmt.Sprintf("...%s  ->  ...%s", a[lo:ha], b[lo:hb])
}

// (b) one ordered pair: p then q in the same process
func c09Pair(c *Case) []Violation {
	p, q := J(c.Params["p"]), J(c.Params["q"])
	fp0 := Fingerprint()
	qBase := asS(c.Params["q_baseline"])
	dmP, err := Decode(p)
	if err != nil {
		return nil
	}
	var vs []Violation
	func() {
		defer func() { recover() }()
		r1 := func() (ch *model.DecisionMakerChoice) {
			defer func() {
				if e := recover(); e != nil {
					ch = nil
				}
			}()
			return svcDecide(dmP)
		}()
		var r1b []byte
		if r1 != nil {
			r1b, _ = json.Marshal(r1)
		}
		fp1 := Fingerprint()
		out := Decide(q, nil)
		fp2 := Fingerprint()
		if fp1 != fp0 || fp2 != fp0 {
			vs = append(vs, viol(c, "C09/shared-state-changed", "the fingerprint of the process-wide state changed while serving requests (%s -> %s -> %s)", fp0, fp1, fp2))
		}
		if r1 != nil {
			r1c, _ := json.Marshal(r1)
			if !bytes.Equal(r1b, r1c) {
				vs = append(vs, viol(c, "C09/earlier-result-modified", "the value returned for the first request changed while the second request was processed: %s", firstDiff(string(r1b), string(r1c))))
			}
		}
		got := "rejected"
		if out.Accepted {
			got = bodyHash(out.Body)
		}
		if qBase != "" && got != qBase {
			vs = append(vs, viol(c, "C09/history-dependence", "the second request answers %s after the first one, but %s from a fresh state", got, qBase))
		} else {
			stat("traces_validated")
		}
	}()
	return vs
}

// (c) report faithfulness by stepping
func c09Reports(c *Case) []Violation {
	req := asM(roundTrip(c.Req))
	st, err := NewStepper(J(req))
	if err != nil || st == nil {
		stat("reports_case_rejected(C07's subject)")
		return nil
	}
	var vs []Violation
	for k := 0; !st.Done(); k++ {
		prev := StateOf(st.Current)
		if _, e := st.Step(); e != nil {
			stat("reports_case_rejected(C07's subject)")
			return nil
		}
		// what the report says about criteria that went or came is what the next stage holds
		var rep map[string]interface{}
		jsonUnmarshal(st.RepJSON[k], &rep)
		omitted, added := reportedCriteriaChange(rep)
		next := StateOf(st.Current)
		gone, came := diffStrings(prev.CritIDs(), next.CritIDs())
		sort.Strings(omitted)
		sort.Strings(added)
		// ... and about values: wherever the report lists "alternativesValues" for a criterion id (added, reversed
		// criteria), these are the values the next stage holds for that criterion
		var walk func(v interface{})
		walk = func(v interface{}) {
			switch x := v.(type) {
			case map[string]interface{}:
				id, hasID := x["id"].(string)
				if av, ok := x["alternativesValues"].(map[string]interface{}); ok && hasID {
					for _, a := range next.All() {
						if rv, has := av[a.ID]; !has || asF(rv) != a.Values[id] {
							vs = append(vs, viol(c, "C09/report-not-what-next-stage-received", "bias %d (%v) reports %v for alternative %s on criterion %s, the next stage received %v", k, asM(asL(req["biases"])[k])["name"], av[a.ID], a.ID, id, a.Values[id]))
							return
						}
					}
				}
				for _, e := range x {
					walk(e)
				}
			case []interface{}:
				for _, e := range x {
					walk(e)
				}
			}
		}
		walk(rep["props"])
		if !sameStrings(gone, omitted) || !sameStrings(came, added) {
			vs = append(vs, viol(c, "C09/report-not-what-next-stage-received", "bias %d (%v) reports omitted %v / added %v, the next stage received criteria without %v / with new %v", k, asM(asL(req["biases"])[k])["name"], omitted, added, gone, came))
		}
	}
	rk, eerr := st.Evaluate()
	if eerr != nil {
		stat("reports_case_method_failed")
		return vs
	}
	for k, rep := range st.Reports {
		now, _ := json.Marshal(rep)
		if !bytes.Equal(now, st.RepJSON[k]) {
			vs = append(vs, viol(c, "C09/report-altered-later", "report of bias %d (%v) changed after later stages ran: %s", k, asM(asL(req["biases"])[k])["name"], firstDiff(string(st.RepJSON[k]), string(now))))
		}
	}
	_ = rk
	out := Decide(J(c.Req), nil)
	if out.Accepted {
		resp, _ := ParseResponse(out.Body)
		// the alternatives shown in the result carry exactly the values the last stage handed to the method
		last := StateOf(st.Current)
		for _, e := range resp.Result {
			for _, a := range last.All() {
				if a.ID != e.Alternative.ID {
					continue
				}
				for k, v := range a.Values {
					if rv, has := e.Alternative.Criteria[k]; !has || rv != v {
						vs = append(vs, viol(c, "C09/result-not-what-the-method-received", "result entry %s shows %s=%v, the method received %v", a.ID, k, e.Alternative.Criteria[k], v))
						break
					}
				}
			}
		}
		for k := range st.RepJSON {
			var want interface{}
			jsonUnmarshal(st.RepJSON[k], &want)
			if k < len(resp.Biases) && !bytes.Equal(J(want), J(resp.Biases[k])) {
				vs = append(vs, viol(c, "C09/report-not-what-next-stage-received", "biases[%d] of the response differs from what the bias reported when it handed its data on: %s", k, firstDiff(string(J(want)), string(J(resp.Biases[k])))))
			}
		}
	}
	if cur != nil {
		cur.Outcome(len(st.Reports) > 1, "reports", J(c.Req))
	}
	return vs
}

// diffStrings: elements only in a, elements only in b (both sorted).
func diffStrings(a, b []string) (onlyA, onlyB []string) {
	in := func(x string, l []string) bool {
		for _, y := range l {
			if x == y {
				return true
			}
		}
		return false
	}
	for _, x := range a {
		if !in(x, b) {
			onlyA = append(onlyA, x)
		}
	}
	for _, x := range b {
		if !in(x, a) {
			onlyB = append(onlyB, x)
		}
	}
	sort.Strings(onlyA)
	sort.Strings(onlyB)
	return
}

func c09Run(s *Shard) {
	cur = s
	level := 1
	if !quick(s) {
		level = 2
	}
	corpus := validCorpus(level)
	invalid := invalidCorpus()
	s.Bounds["corpus_valid"] = len(corpus)
	s.Bounds["corpus_invalid"] = len(invalid)
	all := append(append([]CorpusReq{}, corpus...), invalid...)
	// (a)
	for _, r := range all {
		for _, ex := range []bool{false, true} {
			if !s.Take() {
				continue
			}
			c := &Case{Prop: "C09", Kind: "input", Req: r.Req, Params: M{"exact_capacity": ex, "name": r.Name}}
			s.Evals++
			s.Begin(c)
			s.Report(c09Input(c))
		}
	}
	// alternatives that carry a value under a key nobody declared and that a criterion-adding bias would generate
	for _, m := range []string{"majorityHeuristic", "electreIII", "aspectEliminationHeuristic", "satisfactionHeuristic"} {
		for _, gk := range []struct {
			key string
			b   M
		}{{"__concealedCriterion__", biasAlphabet(0)[4]}, {"__anchoring_criterion_ideal", anchoringBias(2, false, false)}, {"__anchoring_criterion_nadir", anchoringBias(2, true, false)}} {
			for _, ex := range []bool{false, true} {
				if !s.Take() {
					continue
				}
				r := rootRequest(m, true, false)
				for i, a := range asL(r["knownAlternatives"]) {
					asM(asM(a)["criteria"])[gk.key] = float64(i) + 0.5
				}
				c := &Case{Prop: "C09", Kind: "input", Req: withBiases(r, []M{gk.b}), Params: M{"exact_capacity": ex, "name": "undeclared-key-like-generated-id/" + m + "/" + gk.key}}
				s.Evals++
				s.Begin(c)
				s.Report(c09Input(c))
			}
		}
	}
	// (c)
	chains := [][]M{}
	core := biasAlphabet(0)
	for _, a := range core {
		for _, b := range core {
			chains = append(chains, []M{a, b})
		}
	}
	// an omission that takes every criterion it receives (alone, after another omission, after an addition)
	all1 := bias("criteriaOmission", M{"ratio": 1.0})
	chains = append(chains, []M{all1}, []M{core[0], all1}, []M{core[4], all1}, []M{bias("criteriaOmission", M{"ratio": 0.0, "min": 3})})
	// bounding that really clips what the bias generates (the reported value and the applied value are bounded alike)
	for seed := 0; seed < 4; seed++ {
		concB := bias("criteriaConcealment", withBounding(M{"randomSeed": seed, "newCriterionScaling": 2.0}, 3))
		fatB := bias("fatigue", withBounding(M{"function": "const", "params": M{"value": 1.0}, "randomSeed": seed}, 3))
		chains = append(chains, []M{concB}, []M{core[2], concB}, []M{fatB}, []M{concB, fatB})
	}
	chains = append(chains, []M{bias("criteriaOmission", M{"ratio": 0.67, "max": 1})}, []M{core[2], bias("criteriaOmission", M{"ratio": 1.0, "max": 1, "min": 1})}, []M{bias("criteriaOmission", M{"ratio": 0.34, "min": 2})})
	// the same pair of criteria mixed again (the second mixed criterion needs a fresh id; what the report names must be
	// what the next stage received), different ratios so that the two mixed criteria differ
	for sd := 0; sd < 6; sd++ {
		mixA := bias("criteriaMixing", refStrategy(M{"randomSeed": sd, "mixingRatio": 0.5}, 0))
		mixB := bias("criteriaMixing", refStrategy(M{"randomSeed": sd, "mixingRatio": 0.25}, 0))
		chains = append(chains, []M{mixA, mixB}, []M{mixA, mixB, core[1]})
	}
	chains = append(chains, []M{bias("criteriaMixing", refStrategy(M{"randomSeed": 0, "mixingRatio": 0.5}, 0)), bias("criteriaMixing", refStrategy(M{"randomSeed": 1, "mixingRatio": 0.25}, 0))})
	// bounding options one at a time and together, scaling exactly 1 (the allowed range IS the criterion's range), followed by a
	// stage that reads the ranges; run on the declared-range roots below as well
	var boundChains [][]M
	for b := 1; b <= 5; b++ {
		fat := bias("fatigue", withBounding(M{"function": "const", "params": M{"value": 0.5}, "randomSeed": 4}, b))
		conc := bias("criteriaConcealment", withBounding(M{"randomSeed": 4, "newCriterionScaling": 2.0}, b))
		anc := anchoringBias(0, false, false)
		ap := asM(asM(asM(anc["props"])["applier"])["params"])
		for k, v := range withBounding(M{}, b) {
			ap[k] = v
		}
		boundChains = append(boundChains, []M{fat}, []M{fat, core[1]}, []M{conc, core[1]}, []M{anc, core[1]}, []M{fat, conc})
	}
	chains = append(chains, boundChains...)
	type rootSpec struct {
		m   string
		sub bool
		mp  M
	}
	var roots []rootSpec
	for _, m := range allMethods {
		for _, sub := range []bool{false, true} {
			roots = append(roots, rootSpec{m, sub, nil})
		}
	}
	// heuristics with a current choice taken from choseToMake (first / last listed), fixed and seeded-random order
	for _, m := range []string{"majorityHeuristic", "satisfactionHeuristic"} {
		for _, cc := range []string{"a", "c"} {
			for _, rnd := range []bool{false, true} {
				roots = append(roots, rootSpec{m, false, M{"currentChoice": cc, "randomAlternativesOrdering": rnd, "randomSeed": 3}})
			}
		}
	}
	for _, rs := range roots {
		m := rs.m
		{
			root := rootRequest(m, rs.sub, false)
			if rs.mp != nil {
				root = withMP(root, rs.mp)
			}
			for _, ch := range chains {
				if !s.Take() {
					continue
				}
				c := &Case{Prop: "C09", Kind: "reports", Req: withBiases(root, ch)}
				s.Evals++
				s.Begin(c)
				s.Report(c09Reports(c))
			}
			// criteria that declare a range reaching below zero: the stages work with the request's own range objects
			if rs.mp == nil {
				decl := asM(deepCopy(root))
				for _, cr := range asL(decl["criteria"]) {
					asM(cr)["valuesRange"] = M{"min": -10.0, "max": 10.0}
				}
				for _, ch := range boundChains {
					if !s.Take() {
						continue
					}
					for _, ex := range []bool{false, true} {
						ci := &Case{Prop: "C09", Kind: "input", Req: withBiases(decl, ch), Params: M{"exact_capacity": ex, "name": "declared-range-below-zero"}}
						s.Evals++
						s.Begin(ci)
						s.Report(c09Input(ci))
					}
					c := &Case{Prop: "C09", Kind: "reports", Req: withBiases(decl, ch)}
					s.Evals++
					s.Begin(c)
					s.Report(c09Reports(c))
				}
			}
		}
	}
	// (b) all ordered pairs over the pair corpus
	pairCorpus := all
	if quick(s) {
		pairCorpus = nil
		for i, r := range all {
			if i%3 == 0 || !r.Valid || r.Always {
				pairCorpus = append(pairCorpus, r)
			}
		}
	}
	s.Bounds["pair_corpus"] = len(pairCorpus)
	base := make([]string, len(pairCorpus))
	for i, r := range pairCorpus {
		s.Begin(&Case{Prop: "C09", Kind: "input", Req: r.Req, Params: M{"exact_capacity": false, "name": r.Name, "phase": "baseline"}})
		out := Decide(J(r.Req), nil)
		base[i] = "rejected"
		if out.Accepted {
			base[i] = bodyHash(out.Body)
		}
	}
	s.Data["fingerprint"] = Fingerprint()
	sampled := false
	for i, p := range pairCorpus {
		if !s.Take() {
			continue
		}
		for j, q := range pairCorpus {
			c := &Case{Prop: "C09", Kind: "pair", Params: M{"p": p.Req, "q": q.Req, "q_baseline": base[j], "p_name": p.Name, "q_name": q.Name}}
			s.Evals++
			s.Count("transitions", 2)
			s.Begin(c)
			s.Report(c09Pair(c))
			_ = i
		}
		if !sampled {
			s.Sample(M{"history": []string{p.Name, pairCorpus[len(pairCorpus)/2].Name}, "first_request": p.Req})
			sampled = true
		}
	}
}

func c09Finalize(m *Merged) {
	fps := map[string]bool{}
	for _, d := range m.ShardData {
		if f, ok := d["fingerprint"].(string); ok {
			fps[f] = true
		}
	}
	m.Extra["states"] = len(fps)
	m.Extra["transitions"] = m.Counters["transitions"]
	m.Extra["traces_validated_against_impl"] = m.Counters["traces_validated"]
	if len(fps) > 1 {
		m.Notes = append(m.Notes, fmt.Sprintf("%d distinct initial fingerprints across worker processes (expected 1 with the deterministic runtime overlay)", len(fps)))
	}
}
