package props

import (
	"fmt"
	"math"

	. "rdmverif/engine"
)

// C19 — anchoring shifts values by gains and losses against the reference point (DESIGN.md 6.C19, A.13).

func init() {
	Register(&Property{
		ID: "C19", Level: "exploration",
		Rule: "E1/E2: 7 methods x {considered = known, subset} x valuesRange {observed, declared} x data {root, one criterion with a degenerate range, one strictly negative criterion} x start state {root, after each core bias} x " +
			"anchoring alternatives {a; c; a+c(0.5); b(2)+a; a+b+c} x {ideal,nadir} x gain/loss {zero; linear; linear with offset; expFromZero; exp with alpha 0} x " +
			"applier {inline; inline+notConsidered; inline with the flag omitted; inline bounded; newCriterion x 3 reference strategies; newCriterion bounded}. One real Anchoring.Apply per case. Oracle: reference point per criterion " +
			"(coefficient-weighted best/worst, any tied value), mapped differences gain(d)/-loss(-d) with d scaled by the value range, inline: v' = bound(v + range*mean), reported difference = new-old for " +
			"exactly the affected alternatives, zero functions = identity; newCriterion: one appended criterion per reference point with the reference criterion's type/range, value = mid + half * " +
			"importance-weighted mean (exact on root states), bounded. distinct_nontrivial = distinct (start state, options) where a value changed or a criterion was added.",
		Assume: []string{"importance weights for the newCriterion value are known to the oracle on root states only (documented importance, all >= 0.01 so the floor shift is inactive); elsewhere structural clauses are checked"},
		Run:    c19Run,
		Check:  c19Check,
	})
}

func evalFn(def map[string]interface{}, x float64) float64 {
	p := asM(def["params"])
	if asS(def["function"]) == "linear" {
		a, b := asF(p["a"]), asF(p["b"])
		if a == 0 && b == 0 {
			return 0
		}
		return a*x + b
	}
	return asF(p["multiplier"])*math.Exp(asF(p["alpha"])*x) - asF(p["multiplier"])
}

func c19Check(c *Case) []Violation {
	req := asM(roundTrip(c.Req))
	bs := asL(req["biases"])
	props := asM(asM(bs[len(bs)-1])["props"])
	t := lastTransition(req, nil)
	if t.err != nil {
		if t.failAt >= 0 && t.failAt < len(bs)-1 {
			stat("prefix_failed(C07's subject)")
			return nil
		}
		return []Violation{viol(c, "C19/rejected", "anchoring failed: %v", t.err)}
	}
	var vs []Violation
	vs = append(vs, alteredReport(c, "C19", "anchoring", t, bs)...)
	prev, next := t.prev, t.next
	// 1. reference point
	rps := asL(t.props["referencePoints"])
	if len(rps) != 1 {
		return []Violation{viol(c, "C19/reference-points", "%d reference points reported", len(rps))}
	}
	rp := asM(asM(rps[0])["criteria"])
	nadir := asS(asM(props["referencePoints"])["function"]) == "nadir"
	type av struct{ v, k float64 }
	for _, cr := range prev.Criteria {
		var xs []av
		for _, aa := range asL(props["anchoringAlternatives"]) {
			am := asM(aa)
			k := 1.0
			if kv, ok := am["coefficient"]; ok {
				k = asF(kv)
			}
			xs = append(xs, av{prevValues(prev, asS(am["alternative"]))[cr.ID], k})
		}
		score := func(x av) float64 {
			if cr.Cost {
				return -(x.v / x.k)
			}
			return x.v * x.k
		}
		best := score(xs[0])
		for _, x := range xs {
			if (!nadir && score(x) > best) || (nadir && score(x) < best) {
				best = score(x)
			}
		}
		got, ok := rp[cr.ID]
		okv := false
		for _, x := range xs {
			if near(score(x), best) && ok && asF(got) == x.v {
				okv = true
			}
		}
		if !okv {
			vs = append(vs, viol(c, "C19/reference-point", "criterion %s (cost=%v): reference point value %v is not the coefficient-weighted %s value among the anchoring alternatives %v", cr.ID, cr.Cost, got, map[bool]string{false: "best", true: "worst"}[nadir], xs))
		}
	}
	if len(vs) > 0 {
		return vs
	}
	// 2. mapped differences
	mapped := map[string]map[string]float64{}
	prd := asL(t.props["perReferencePointsDifferences"])
	repDiff := map[string]map[string]interface{}{}
	for _, e := range prd {
		em := asM(e)
		rl := asL(em["referencePointsDifference"])
		if len(rl) == 1 {
			repDiff[asS(asM(em["alternative"])["id"])] = asM(asM(rl[0])["coefficients"])
		}
	}
	for _, a := range prev.All() {
		mapped[a.ID] = map[string]float64{}
		for _, cr := range prev.Criteria {
			lo, hi := prev.Range(cr)
			scale := 0.0
			if hi-lo != 0 {
				scale = 1 / (hi - lo)
			}
			sg := 1.0
			if cr.Cost {
				sg = -1
			}
			d := (sg*a.Values[cr.ID] - sg*asF(rp[cr.ID])) * scale
			var m float64
			if d > 0 {
				m = evalFn(asM(props["gain"]), d)
			} else {
				m = -evalFn(asM(props["loss"]), -d)
			}
			mapped[a.ID][cr.ID] = m
			if rd := repDiff[a.ID]; rd == nil || !near(asF(rd[cr.ID]), m) {
				vs = append(vs, viol(c, "C19/mapped-difference", "alternative %s criterion %s: reported mapped difference %v, expected %v (scaled difference %v)", a.ID, cr.ID, repDiff[a.ID][cr.ID], m, d))
			}
		}
	}
	applier := asM(props["applier"])
	ap := asM(applier["params"])
	bscaling, nonneg := boundingOf(ap)
	changed := false
	if asS(applier["function"]) == "inline" {
		onNC, _ := ap["applyOnNotConsidered"].(bool)
		affected := map[string]bool{}
		for _, a := range prev.Considered {
			affected[a.ID] = true
		}
		if onNC {
			for _, a := range prev.NotConsidered {
				affected[a.ID] = true
			}
		}
		ar := asL(asM(t.props["applierResult"])["appliedDifferences"])
		reported := map[string]map[string]interface{}{}
		for _, e := range ar {
			reported[asS(asM(e)["id"])] = asM(asM(e)["criteria"])
		}
		if len(reported) != len(affected) {
			vs = append(vs, viol(c, "C19/inline/report-alternatives", "differences reported for %d alternatives, %d are affected (applyOnNotConsidered=%v)", len(reported), len(affected), onNC))
		}
		for _, a := range prev.All() {
			nv := prevValues(next, a.ID)
			for _, cr := range prev.Criteria {
				v := a.Values[cr.ID]
				got := nv[cr.ID]
				if got != v {
					changed = true
				}
				if !affected[a.ID] {
					if got != v {
						vs = append(vs, viol(c, "C19/inline/not-considered-touched", "not-considered alternative %s.%s changed from %v to %v although applyOnNotConsidered is off", a.ID, cr.ID, v, got))
					}
					continue
				}
				lo, hi := prev.Range(cr)
				want := boundRef(v+(hi-lo)*mapped[a.ID][cr.ID], lo, hi, bscaling, nonneg)
				if !nearScale(got, want, math.Max(math.Abs(v), math.Max(math.Abs(lo), math.Abs(hi)))*(1+math.Abs(mapped[a.ID][cr.ID]))) {
					vs = append(vs, viol(c, "C19/inline/value", "alternative %s criterion %s: %v became %v, expected bound(v + range*mapped) = %v (mapped %v, range [%v,%v])", a.ID, cr.ID, v, got, want, mapped[a.ID][cr.ID], lo, hi))
				}
				if rd := reported[a.ID]; rd == nil || !nearScale(asF(rd[cr.ID]), got-v, math.Max(math.Abs(got), math.Abs(v))) {
					vs = append(vs, viol(c, "C19/inline/reported-difference", "alternative %s criterion %s: reported difference %v, new-old = %v", a.ID, cr.ID, reported[a.ID][cr.ID], got-v))
				}
			}
			if len(nv) != len(a.Values) {
				vs = append(vs, viol(c, "C19/inline/value-set", "alternative %s has %d values after anchoring, %d before", a.ID, len(nv), len(a.Values)))
			}
		}
		zero := func(def map[string]interface{}) bool {
			p := asM(def["params"])
			return asS(def["function"]) == "linear" && asF(p["a"]) == 0 && asF(p["b"]) == 0
		}
		if zero(asM(props["gain"])) && zero(asM(props["loss"])) && bscaling <= 0 && !nonneg {
			if w, ok := valuesUnchangedExcept(prev, next, nil); !ok {
				vs = append(vs, viol(c, "C19/inline/zero-not-identity", "gain and loss are identically zero but %s changed", w))
			}
		}
		if !critsEqual(prev.Criteria, next.Criteria) || prev.Params != next.Params {
			vs = append(vs, viol(c, "C19/inline/criteria-or-params-changed", "inline anchoring changed criteria or method parameters"))
		}
	} else {
		changed = true
		res := asM(t.props["applierResult"])
		added := asL(res["addedCriteria"])
		if len(added) != 1 {
			return append(vs, viol(c, "C19/newCriterion/report", "%d added criteria for one reference point", len(added)))
		}
		ac := asM(added[0])
		newID := asS(ac["id"])
		cv := c18Common(c, "x", t, newID)
		for i := range cv {
			cv[i].Sig = "C19/newCriterion/" + cv[i].Sig[len("C18/x/"):]
			// the added criterion takes the reference criterion's type, it need not be gain
			if cv[i].Sig == "C19/newCriterion/not-gain" {
				continue
			}
			vs = append(vs, cv[i])
		}
		if len(vs) > 0 {
			return vs
		}
		nc := next.Criteria[len(next.Criteria)-1]
		refc := asM(res["referenceCriterion"])
		rho, ok := prev.Crit(asS(refc["id"]))
		if !ok {
			return append(vs, viol(c, "C19/newCriterion/reference-not-existing", "reported reference criterion %v is not an existing criterion %v", refc["id"], prev.CritIDs()))
		}
		if nc.Cost != rho.Cost || nc.HasRange != rho.HasRange || nc.Lo != rho.Lo || nc.Hi != rho.Hi {
			vs = append(vs, viol(c, "C19/newCriterion/type-range", "new criterion (cost=%v declared=%v [%v,%v]) does not take the reference criterion's type/declared range (cost=%v declared=%v [%v,%v])", nc.Cost, nc.HasRange, nc.Lo, nc.Hi, rho.Cost, rho.HasRange, rho.Lo, rho.Hi))
		}
		if len(bs) == 1 {
			if want, ok := expectedReference(req, ap, 0, false); ok && want != rho.ID {
				vs = append(vs, viol(c, "C19/newCriterion/reference-criterion", "strategy %v should choose %s as reference criterion, got %s", ap["referenceCriterionType"], want, rho.ID))
			}
		}
		lo, hi := prev.Range(rho)
		half := (hi - lo) / 2
		imp := rootImportance(req)
		av := asM(ac["alternativesValues"])
		for _, a := range next.All() {
			got := a.Values[nc.ID]
			if rv, ok := av[a.ID]; !ok || asF(rv) != got {
				vs = append(vs, viol(c, "C19/newCriterion/report-values", "report lists %v for %s, handed on %v", av[a.ID], a.ID, got))
			}
			floorActive := false
			for _, cr := range prev.Criteria {
				if imp != nil && imp[cr.ID] < 0.01 {
					floorActive = true // importance below the implementation's floor: the weighted mean is not pinned by the statement
				}
			}
			if floorActive {
				stat("newCriterion_value_not_checked_importance_below_floor")
			}
			if floorActive {
				// any non-negative weights summing to 1: the weighted mean lies between the smallest and largest mapped difference
				lom, him := math.Inf(1), math.Inf(-1)
				for _, cr := range prev.Criteria {
					lom, him = math.Min(lom, mapped[a.ID][cr.ID]), math.Max(him, mapped[a.ID][cr.ID])
				}
				wl, wh := boundRef(lo+half+half*lom, lo, hi, bscaling, nonneg), boundRef(lo+half+half*him, lo, hi, bscaling, nonneg)
				if wl > wh {
					wl, wh = wh, wl
				}
				if got < wl-1e-9 || got > wh+1e-9 {
					vs = append(vs, viol(c, "C19/newCriterion/value-not-a-weighted-mean", "alternative %s: anchoring criterion value %v is not mid + half * (a weighted mean of the mapped differences %v): allowed [%v,%v]", a.ID, got, mapped[a.ID], wl, wh))
				}
			}
			if len(bs) == 1 && imp != nil && !floorActive {
				total := 0.0
				for _, cr := range prev.Criteria {
					total += imp[cr.ID]
				}
				sum := 0.0
				for _, cr := range prev.Criteria {
					sum += mapped[a.ID][cr.ID] * (imp[cr.ID] / total)
				}
				want := boundRef(lo+half+half*sum, lo, hi, bscaling, nonneg)
				if !near(got, want) {
					vs = append(vs, viol(c, "C19/newCriterion/value", "alternative %s: anchoring criterion value %v, expected bound(mid + half * weighted mean) = %v (mid %v half %v mean %v)", a.ID, got, want, lo+half, half, sum))
				}
			}
		}
		if prev.Params == next.Params && asS(req["preferenceFunction"]) != "satisfactionHeuristic" {
			vs = append(vs, viol(c, "C19/newCriterion/params-not-extended", "method parameters unchanged although a criterion was added"))
		}
	}
	if !sameStrings(altIDs(prev.Considered), altIDs(next.Considered)) || !sameStrings(altIDs(prev.NotConsidered), altIDs(next.NotConsidered)) {
		vs = append(vs, viol(c, "C19/split-changed", "considered/not considered changed"))
	}
	if cur != nil {
		cur.Outcome(changed, prev.Canon(), fmt.Sprint(props))
	}
	return vs
}

func c19Run(s *Shard) {
	cur = s
	anchors := []L{
		{M{"alternative": "a", "coefficient": 1.0}},
		{M{"alternative": "c", "coefficient": 1.0}},
		{M{"alternative": "a", "coefficient": 1.0}, M{"alternative": "c", "coefficient": 0.5}},
		{M{"alternative": "b", "coefficient": 2.0}, M{"alternative": "a", "coefficient": 1.0}},
		{M{"alternative": "a", "coefficient": 1.0}, M{"alternative": "b", "coefficient": 1.0}, M{"alternative": "c", "coefficient": 1.0}},
		// one alternative named twice with different coefficients: every entry takes part in the reduction
		{M{"alternative": "a", "coefficient": 1.0}, M{"alternative": "c", "coefficient": 2.0}, M{"alternative": "a", "coefficient": 3.0}},
		{M{"alternative": "a", "coefficient": 3.0}, M{"alternative": "c", "coefficient": 2.0}, M{"alternative": "a", "coefficient": 0.5}},
	}
	lin := func(a, b float64) M { return M{"function": "linear", "params": M{"a": a, "b": b}} }
	exp := func(al, mu float64) M {
		return M{"function": "expFromZero", "params": M{"alpha": al, "multiplier": mu}}
	}
	fns := [][2]M{{lin(0, 0), lin(0, 0)}, {lin(0.5, 0), lin(1, 0)}, {lin(0.5, 0.125), lin(1, 0.25)}, {exp(1, 0.5), exp(1, 1)}, {exp(0, 1), lin(2, 0)}}
	appliers := []M{
		{"function": "inline", "params": M{"applyOnNotConsidered": false}},
		{"function": "inline", "params": M{"applyOnNotConsidered": true}},
		{"function": "inline", "params": M{}}, // flag left out right after a request that set it: the documented default (false) must apply
		{"function": "inline", "params": M{"applyOnNotConsidered": false, "allowedValuesRangeScaling": 1.0}},
		{"function": "inline", "params": M{"applyOnNotConsidered": true, "allowedValuesRangeScaling": 0.5, "disallowNegativeValues": true}},
		{"function": "newCriterion", "params": refStrategy(M{"randomSeed": 6}, 0)},
		{"function": "newCriterion", "params": refStrategy(M{"randomSeed": 6}, 1)},
		{"function": "newCriterion", "params": refStrategy(M{"randomSeed": 6}, 2)},
		{"function": "newCriterion", "params": withBounding(refStrategy(M{"randomSeed": 6, "newCriterionImportance": 1.0}, 0), 1)},
		{"function": "newCriterion", "params": withBounding(refStrategy(M{"randomSeed": 6, "newCriterionImportance": 0.0}, 0), 3)},
		// one bounding option without the other: no negative values, no range limit (absent / the documented -1 written out)
		{"function": "inline", "params": M{"applyOnNotConsidered": true, "disallowNegativeValues": true}},
		{"function": "inline", "params": M{"applyOnNotConsidered": false, "allowedValuesRangeScaling": -1.0, "disallowNegativeValues": true}},
		{"function": "newCriterion", "params": withBounding(refStrategy(M{"randomSeed": 6}, 0), 2)},
	}
	prefixes := [][]M{nil}
	for _, b := range biasAlphabet(0) {
		prefixes = append(prefixes, []M{b})
	}
	prefixes = append(prefixes, ownPrefixes(anchoringBias(0, false, false))...)
	sampled := false
	for _, method := range allMethods {
		for _, subset := range []bool{false, true} {
			for _, variant := range []int{0, 1, 2, 3, 4, 5, 6} { // observed range, declared range, degenerate c3, strictly negative c1, c3 at 1e-9 scale, never-considered alternatives beyond both ends
				root := rootRequest(method, subset, variant == 1)
				if variant == 2 {
					for _, a := range asL(root["knownAlternatives"]) {
						asM(asM(a)["criteria"])["c3"] = 2.0
					}
				}
				if variant == 3 {
					root = negativeVariant(root)
				}
				if variant == 4 {
					root = tinyVariant(root)
				}
				if variant == 5 {
					root = wideVariant(root)
				}
				if variant == 6 {
					if method == "choquetIntegral" {
						continue // the Choquet parser requires the type to be spelled out
					}
					root = typelessVariant(root)
				}
				for pi, pre := range prefixes {
					if variant >= 2 && pi > 0 {
						continue
					}
					if !s.Take() {
						continue
					}
					for _, an := range anchors {
						for _, nadir := range []bool{false, true} {
							for _, f := range fns {
								for _, ap := range appliers {
									rp := "ideal"
									if nadir {
										rp = "nadir"
									}
									b := bias("anchoring", M{"anchoringAlternatives": an, "referencePoints": M{"function": rp}, "gain": f[0], "loss": f[1], "applier": ap})
									req := withBiases(root, append(append([]M{}, pre...), b))
									c := &Case{Prop: "C19", Kind: "anchoring", Req: req}
									s.Evals++
									s.Begin(c)
									s.Report(c19Check(c))
									if !sampled && len(pre) == 1 && asS(ap["function"]) == "newCriterion" {
										s.Sample(M{"request": req})
										sampled = true
									}
								}
							}
						}
					}
				}
			}
		}
	}
}
