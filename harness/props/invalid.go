package props

import (
	"fmt"

	. "rdmverif/engine"
)

// invalidCorpus: every documented input constraint violated one at a time on an otherwise valid request
// (DESIGN.md A.14). Each of these must be rejected (never answered with a ranking).

func deepCopy(v interface{}) interface{} { return roundTrip(v) }

// set returns a deep copy of req with the value at path replaced (nil value with del=true deletes the key).
func set(req M, value interface{}, path ...interface{}) M {
	r := asM(deepCopy(req))
	var curv interface{} = map[string]interface{}(r)
	for i, p := range path {
		last := i == len(path)-1
		switch k := p.(type) {
		case string:
			m := curv.(map[string]interface{})
			if last {
				if _, isDel := value.(deleteKey); isDel {
					delete(m, k)
				} else {
					m[k] = value
				}
				return r
			}
			if _, ok := m[k]; !ok {
				m[k] = map[string]interface{}{}
			}
			curv = m[k]
		case int:
			l := curv.([]interface{})
			if last {
				l[k] = value
				return r
			}
			curv = l[k]
		}
	}
	return r
}

type deleteKey struct{}

func invalidCorpus() []CorpusReq {
	var out []CorpusReq
	add := func(rule string, req M) {
		out = append(out, CorpusReq{Name: "invalid/" + rule, Req: req, Valid: false, Rule: rule})
	}
	ws := rootRequest("weightedSum", true, false)
	add("blank-preference-function", set(ws, " ", "preferenceFunction"))
	add("unknown-preference-function", set(ws, "noSuchMethod", "preferenceFunction"))
	add("unknown-bias-name", withBiases(ws, []M{{"name": "noSuchBias", "props": M{}}}))
	add("duplicate-criterion-id", set(ws, "c1", "criteria", 1, "id"))
	add("inverted-values-range", set(ws, M{"min": 3.0, "max": 1.0}, "criteria", 0, "valuesRange"))
	add("empty-values-range", set(ws, M{"min": 2.0, "max": 2.0}, "criteria", 0, "valuesRange"))
	add("alternative-lacks-criterion-value", set(ws, M{"c1": 1.0, "c2": 2.0}, "knownAlternatives", 1, "criteria"))
	add("not-considered-alternative-lacks-criterion-value", set(ws, M{"c1": 2.0, "c3": 0.5}, "knownAlternatives", 2, "criteria"))
	add("unknown-alternative-in-choseToMake", set(ws, L{"a", "nobody"}, "choseToMake"))
	add("weightedSum-missing-weights", set(ws, deleteKey{}, "methodParameters", "weights"))
	add("weightedSum-missing-one-weight", set(ws, M{"c1": 1.0, "c2": 2.0}, "methodParameters", "weights"))
	owa := rootRequest("owa", true, false)
	add("owa-missing-weights", set(owa, deleteKey{}, "methodParameters", "weights"))
	add("owa-weight-count-mismatch", set(owa, M{"c1": 1.0, "c2": 2.0}, "methodParameters", "weights"))
	ch := rootRequest("choquetIntegral", true, false)
	add("choquet-weight-above-one", set(ch, 1.5, "methodParameters", "weights", "c1"))
	add("choquet-weight-negative", set(ch, -0.25, "methodParameters", "weights", "c1,c2"))
	add("choquet-cost-criterion", set(ch, "cost", "criteria", 0, "type"))
	add("choquet-missing-subset", set(ch, deleteKey{}, "methodParameters", "weights", "c1,c3"))
	add("choquet-weight-for-unknown-criterion", set(ch, 0.5, "methodParameters", "weights", "c1,zz"))
	add("choquet-redeclared-subset", set(ch, 0.5, "methodParameters", "weights", "c2,c1"))
	el := rootRequest("electreIII", true, false)
	add("electre-missing-criteria", set(el, deleteKey{}, "methodParameters", "electreCriteria"))
	add("electre-missing-one-criterion", set(el, deleteKey{}, "methodParameters", "electreCriteria", "c2"))
	add("electre-k-zero", set(el, 0.0, "methodParameters", "electreCriteria", "c1", "k"))
	add("electre-k-negative", set(el, -1.0, "methodParameters", "electreCriteria", "c1", "k"))
	add("electre-q-not-below-p", set(el, M{"b": 2.0}, "methodParameters", "electreCriteria", "c1", "q"))
	add("electre-p-not-below-v", set(el, M{"b": 1.0}, "methodParameters", "electreCriteria", "c1", "v"))
	// thresholds out of order ACROSS an absent or zero middle threshold (q above v with p left out / zero, q above p with
	// nothing else, v below q with p in between and fine)
	add("electre-q-above-v-p-omitted", set(el, M{"k": 1.0, "q": M{"b": 28.0}, "v": M{"b": 12.0}}, "methodParameters", "electreCriteria", "c1"))
	add("electre-q-above-v-p-zero", set(el, M{"k": 1.0, "q": M{"b": 28.0}, "p": M{"a": 0.0, "b": 0.0}, "v": M{"b": 12.0}}, "methodParameters", "electreCriteria", "c1"))
	add("electre-q-equal-v-p-omitted", set(el, M{"k": 1.0, "q": M{"b": 2.0}, "v": M{"b": 2.0}}, "methodParameters", "electreCriteria", "c1"))
	add("electre-q-above-p-only", set(el, M{"k": 1.0, "q": M{"b": 3.0}, "p": M{"b": 2.0}}, "methodParameters", "electreCriteria", "c2"))
	add("electre-p-above-v-q-omitted", set(el, M{"k": 1.0, "p": M{"b": 3.0}, "v": M{"b": 2.0}}, "methodParameters", "electreCriteria", "c3"))
	add("electre-distillation-negative-on-unit-interval", set(el, M{"a": -0.2, "b": 0.1}, "methodParameters", "electreDistillation"))
	add("electre-distillation-negative-constant", set(el, M{"a": 0.0, "b": -0.1}, "methodParameters", "electreDistillation"))
	add("electre-distillation-negative-at-zero-only", set(el, M{"a": 1.0, "b": -0.6}, "methodParameters", "electreDistillation"))
	add("electre-distillation-negative-at-one-only", set(el, M{"a": -1.0, "b": 0.5}, "methodParameters", "electreDistillation"))
	// the same on data where two alternatives outrank each other with credibility 0.5 (each better on one of two equal criteria)
	sym := set(set(set(el, M{"c1": 2.0, "c2": 1.0, "c3": 1.0}, "knownAlternatives", 0, "criteria"), M{"c1": 1.0, "c2": 2.0, "c3": 1.0}, "knownAlternatives", 1, "criteria"),
		M{"c1": M{"k": 1.0}, "c2": M{"k": 1.0}, "c3": M{"k": 1.0}}, "methodParameters", "electreCriteria")
	sym = set(sym, L{crit("c1", "gain"), crit("c2", "gain"), crit("c3", "gain")}, "criteria")
	add("electre-distillation-negative-at-zero-only-symmetric-data", set(sym, M{"a": 1.0, "b": -0.6}, "methodParameters", "electreDistillation"))
	add("electre-distillation-negative-small-intercept", set(sym, M{"a": 0.5, "b": -0.01}, "methodParameters", "electreDistillation"))
	mj := rootRequest("majorityHeuristic", true, false)
	add("majority-unknown-draw-resolution", set(mj, "coinflip", "methodParameters", "drawResolution"))
	add("majority-missing-weight", set(mj, M{"c1": 1.0}, "methodParameters", "weights"))
	add("majority-unknown-current-choice", set(mj, "nobody", "methodParameters", "currentChoice"))
	ae := rootRequest("aspectEliminationHeuristic", true, false)
	add("aspect-no-function", set(ae, deleteKey{}, "methodParameters", "function"))
	add("aspect-unknown-function", set(ae, "idealSubtractiveCoefficient", "methodParameters", "function"))
	add("aspect-level-lacks-criterion", set(ae, M{"thresholds": L{M{"c1": 1.0}}}, "methodParameters", "params"))
	add("aspect-missing-weight", set(ae, M{"c1": 1.0}, "methodParameters", "weights"))
	for _, bad := range []struct {
		n string
		p M
	}{{"coefficient-zero", M{"coefficient": 0.0, "minValue": 0.0, "maxValue": 1.0}}, {"coefficient-one", M{"coefficient": 1.0, "minValue": 0.0, "maxValue": 1.0}},
		{"min-negative", M{"coefficient": 0.5, "minValue": -0.1, "maxValue": 1.0}}, {"max-above-one", M{"coefficient": 0.5, "minValue": 0.0, "maxValue": 1.5}}} {
		add("aspect-ideal-"+bad.n, set(set(ae, "idealAdditiveCoefficient", "methodParameters", "function"), bad.p, "methodParameters", "params"))
	}
	one := set(ae, L{"a"}, "choseToMake")
	add("aspect-ideal-coefficient-out-of-range-single-alternative", set(set(one, "idealAdditiveCoefficient", "methodParameters", "function"), M{"coefficient": 1.5, "minValue": 0.0, "maxValue": 1.0}, "methodParameters", "params"))
	add("aspect-ideal-min-negative-single-alternative", set(set(one, "idealMultipliedCoefficient", "methodParameters", "function"), M{"coefficient": 0.5, "minValue": -0.5, "maxValue": 1.0}, "methodParameters", "params"))
	sa := rootRequest("satisfactionHeuristic", true, false)
	add("satisfaction-no-function", set(sa, deleteKey{}, "methodParameters", "function"))
	add("satisfaction-unknown-function", set(sa, "idealAdditiveCoefficient", "methodParameters", "function"))
	add("satisfaction-unknown-current-choice", set(sa, "nobody", "methodParameters", "currentChoice"))
	for _, bad := range []struct {
		n string
		p M
	}{{"coefficient-zero", M{"coefficient": 0.0, "minValue": 0.5, "maxValue": 1.0}}, {"min-zero", M{"coefficient": 0.5, "minValue": 0.0, "maxValue": 1.0}},
		{"max-above-one", M{"coefficient": 0.5, "minValue": 0.5, "maxValue": 1.5}}} {
		add("satisfaction-ideal-"+bad.n, set(set(sa, "idealSubtractiveCoefficient", "methodParameters", "function"), bad.p, "methodParameters", "params"))
	}
	// bias option constraints
	b1 := func(name string, props M) M { return withBiases(ws, []M{{"name": name, "props": props}}) }
	add("omission-ratio-above-one", b1("criteriaOmission", M{"ratio": 1.5}))
	add("omission-ratio-negative", b1("criteriaOmission", M{"ratio": -0.5}))
	add("omission-max-below-min", b1("criteriaOmission", M{"ratio": 0.5, "min": 2, "max": 1}))
	add("omission-unknown-ordering", b1("criteriaOmission", M{"ratio": 0.5, "ordering": "alphabetical"}))
	add("reversal-ratio-above-one", b1("preferenceReversal", M{"ratio": 2.0}))
	add("reversal-unknown-ordering", b1("preferenceReversal", M{"ratio": 0.5, "ordering": "alphabetical"}))
	// the violated constraint next to every shape of its valid sibling options (bounds that coincide, bounds that already
	// fix the count, bounds at the ends of their range, a non-default ordering)
	for _, name := range []string{"criteriaOmission", "preferenceReversal"} {
		for ri, ratio := range []float64{1.5, -0.5} {
			for si, sib := range []M{{"min": 1, "max": 1}, {"min": 0, "max": 0}, {"min": 2, "max": 2}, {"min": 0, "max": 1}, {"max": 2}, {"min": 1}, {"ordering": "strongest", "min": 1, "max": 1}} {
				p := M{"ratio": ratio}
				for k, v := range sib {
					p[k] = v
				}
				add(fmt.Sprintf("%s-ratio-out-of-range-%d-with-bounds-%d", name, ri, si), b1(name, p))
			}
		}
		add(name+"-max-below-min-ratio-zero", b1(name, M{"ratio": 0.0, "min": 2, "max": 1}))
		add(name+"-max-below-min-ratio-one", b1(name, M{"ratio": 1.0, "min": 3, "max": 2}))
	}
	// the violation sits in a LATER bias: earlier biases have already been applied when the request is rejected
	core0 := biasAlphabet(0)
	for ai, first := range []M{core0[4], core0[6], core0[8], core0[2], core0[0]} {
		add(fmt.Sprintf("later-bias-omission-ratio-above-one-after-%d", ai), withBiases(ws, []M{first, bias("criteriaOmission", M{"ratio": 1.5})}))
		add(fmt.Sprintf("later-bias-reversal-unknown-ordering-after-%d", ai), withBiases(ws, []M{first, bias("preferenceReversal", M{"ratio": 0.5, "ordering": "alphabetical"})}))
		add(fmt.Sprintf("later-bias-mixing-ratio-above-one-after-%d", ai), withBiases(ws, []M{first, bias("criteriaMixing", M{"mixingRatio": 2.0})}))
	}
	add("mixing-ratio-above-one", b1("criteriaMixing", M{"mixingRatio": 1.5}))
	add("mixing-ratio-negative", b1("criteriaMixing", M{"mixingRatio": -0.5}))
	add("mixing-unknown-reference-type", b1("criteriaMixing", M{"referenceCriterionType": "strongest"}))
	add("concealment-scaling-zero", b1("criteriaConcealment", M{"newCriterionScaling": 0.0}))
	add("concealment-allowed-range-scaling-zero", b1("criteriaConcealment", M{"allowedValuesRangeScaling": 0.0}))
	add("concealment-unknown-reference-type", b1("criteriaConcealment", M{"referenceCriterionType": "strongest"}))
	add("fatigue-unknown-function", b1("fatigue", M{"function": "sqrt", "params": M{}}))
	add("fatigue-no-function", b1("fatigue", M{"params": M{"value": 0.5}}))
	add("fatigue-allowed-range-scaling-zero", b1("fatigue", M{"function": "const", "params": M{"value": 0.5}, "allowedValuesRangeScaling": 0.0}))
	an := asM(anchoringBias(0, false, false)["props"])
	add("anchoring-no-alternatives", b1("anchoring", asM(set(M(an), L{}, "anchoringAlternatives"))))
	add("anchoring-unknown-alternative", b1("anchoring", asM(set(M(an), L{M{"alternative": "nobody", "coefficient": 1.0}}, "anchoringAlternatives"))))
	add("anchoring-unknown-gain-function", b1("anchoring", asM(set(M(an), "cubic", "gain", "function"))))
	add("anchoring-unknown-loss-function", b1("anchoring", asM(set(M(an), "cubic", "loss", "function"))))
	add("anchoring-unknown-reference-points", b1("anchoring", asM(set(M(an), "median", "referencePoints", "function"))))
	add("anchoring-unknown-applier", b1("anchoring", asM(set(M(an), "outline", "applier", "function"))))
	add("anchoring-applier-scaling-zero", b1("anchoring", asM(set(M(an), 0.0, "applier", "params", "allowedValuesRangeScaling"))))
	add("bias-entry-not-an-object", set(ws, L{"fatigue"}, "biases"))
	// many considered alternatives (50, 130: sizes at which work may be split or batched), a late one carries a value
	// for an undeclared criterion / lacks a value: rejected all the same, and the process keeps answering
	for _, m := range []string{"owa", "choquetIntegral", "weightedSum", "electreIII"} {
		for _, n := range []int{50, 130} {
			ids := make([]string, n)
			vals := make([][]float64, n)
			for i := range ids {
				ids[i] = fmt.Sprintf("m%03d", i)
				vals[i] = []float64{float64(i%5) + 1, float64((i*3)%7) + 1, float64((i*2)%3) + 1}
			}
			big := genericRequest(m, critIDs(3), -1, ids, vals, ids, []float64{1, 2, 3})
			if m == "owa" || m == "choquetIntegral" {
				add(fmt.Sprintf("%s-undeclared-value-in-alternative-%d-of-%d", m, n-9, n), set(big, 3.0, "knownAlternatives", n-9, "criteria", "note"))
			}
			add(fmt.Sprintf("%s-missing-value-in-alternative-%d-of-%d", m, n-2, n), set(big, deleteKey{}, "knownAlternatives", n-2, "criteria", "c2"))
		}
	}
	// six considered alternatives, one of them with a value for an undeclared criterion (OWA / Choquet count the values)
	for _, m := range []string{"owa", "choquetIntegral"} {
		b6 := bigRequest(m)
		b6["choseToMake"] = L{"a", "b", "c", "d", "e", "f"}
		add(m+"-alternative-with-undeclared-value-six-considered", set(b6, 3.0, "knownAlternatives", 4, "criteria", "note"))
	}
	// an unknown bias name is a violation whatever the entry's other fields say (only a disabled entry is never looked at)
	for _, pr := range []float64{0, 0.5} {
		for pos, before := range [][]M{nil, {{"name": "fatigue", "props": M{}}}} {
			entry := M{"name": "noSuchBias", "applyProbability": pr, "props": M{}}
			out = append(out, CorpusReq{Name: fmt.Sprintf("invalid/unknown-bias-name-apply-probability-%v-at-%d", pr, pos), Req: withBiases(ws, append(append([]M{}, before...), entry)), Valid: false, Rule: "unknown-bias-name"})
		}
	}
	for i, m := range []string{"noSuchMethod", ""} {
		r := set(ws, m, "preferenceFunction")
		out = append(out, CorpusReq{Name: fmt.Sprintf("invalid/unknown-preference-function-%d-with-never-applied-bias", i), Req: withBiases(r, []M{{"name": "fatigue", "applyProbability": 0.0, "props": M{}}}), Valid: false, Rule: "unknown-preference-function-with-bias"})
	}
	// a violated range constraint on a later criterion, behind criteria that declare no range / a valid range
	for pos := 1; pos <= 2; pos++ {
		for bi, badRange := range []M{{"min": 3.0, "max": 1.0}, {"min": 2.0, "max": 2.0}} {
			for ei, earlier := range []interface{}{nil, M{"min": 0.0, "max": 5.0}} {
				r := set(ws, badRange, "criteria", pos, "valuesRange")
				for k := 0; k < pos; k++ {
					if earlier != nil {
						r = set(r, earlier, "criteria", k, "valuesRange")
					}
				}
				out = append(out, CorpusReq{Name: fmt.Sprintf("invalid/values-range-%d-on-criterion-%d-earlier-%d", bi, pos, ei), Req: r, Valid: false, Rule: "inverted-or-empty-values-range-later-criterion"})
				out = append(out, CorpusReq{Name: fmt.Sprintf("invalid/values-range-%d-on-criterion-%d-earlier-%d-with-reversal", bi, pos, ei), Req: withBiases(r, []M{bias("preferenceReversal", M{"ratio": 0.5})}), Valid: false, Rule: "inverted-or-empty-values-range-later-criterion"})
			}
		}
	}
	// an unknown ordering name next to sibling options under which the ordering would select nothing
	for _, name := range []string{"criteriaOmission", "preferenceReversal"} {
		for si, sib := range []M{{"ratio": 0.0}, {}, {"ratio": 0.0, "min": 0}, {"ratio": 0.2}, {"ratio": 0.9, "max": 0}} {
			props := M{"ordering": "weakestFirst"}
			for k, v := range sib {
				props[k] = v
			}
			out = append(out, CorpusReq{Name: fmt.Sprintf("invalid/%s-unknown-ordering-nothing-selected-%d", name, si), Req: withBiases(ws, []M{bias(name, props)}), Valid: false, Rule: "ordering-name-unknown-nothing-selected"})
		}
	}
	// unknown alternatives whose name is untidy (white space only, a known id with a space, another letter case)
	for _, m := range []string{"majorityHeuristic", "satisfactionHeuristic"} {
		for ni, name := range []string{" ", "\t", "a ", "A"} {
			out = append(out, CorpusReq{Name: fmt.Sprintf("invalid/%s-unknown-current-choice-untidy-%d", m, ni), Req: withMP(rootRequest(m, true, false), M{"currentChoice": name}), Valid: false, Rule: "unknown-alternative-untidy-name"})
		}
	}
	for ni, name := range []string{" ", "a ", "A"} {
		out = append(out, CorpusReq{Name: fmt.Sprintf("invalid/unknown-alternative-in-choseToMake-untidy-%d", ni), Req: set(ws, L{"a", name}, "choseToMake"), Valid: false, Rule: "unknown-alternative-untidy-name"})
	}
	// Choquet: a capacity outside [0,1] under a key that no evaluation ever looks up (a criterion named twice, a subset
	// spelt in another order next to its sorted spelling is a redeclaration and covered above)
	for ki, kv := range []struct {
		k string
		v float64
	}{{"c1,c1", 3}, {"c2,c1,c2", -2}, {"c3,c3,c3", 1.5}} {
		out = append(out, CorpusReq{Name: fmt.Sprintf("invalid/choquet-weight-out-of-range-on-unused-key-%d", ki), Req: set(ch, kv.v, "methodParameters", "weights", kv.k), Valid: false, Rule: "choquet-weight-out-of-range-unused-key"})
	}
	for i := range out {
		out[i].Name = fmt.Sprintf("%s", out[i].Name)
	}
	return out
}
