package props

import (
	"bytes"
	"fmt"
	"go/ast"
	"go/parser"
	"go/token"
	"os"
	"path/filepath"
	"sort"
	"strings"

	"github.com/Azbesciak/RealDecisionMaker/lib/utils"

	. "rdmverif/engine"
	"rdmverif/svc"
)

// C02 — decisions are repeatable: the request (with its seeds) determines the response (DESIGN.md 6.C02).

func init() {
	Register(&Property{
		ID: "C02", Level: "model_checking",
		Rule: "Corpus Σ (valid requests for 7 methods x every bias configuration x heuristic variants + one rejected request per validation rule). " +
			"(a) map iteration order ENUMERATED through a patched runtime (build overlay): per request, baseline with every range starting at bucket/offset 0, then every single range statement i of the R executed " +
			"started at r (menu of 10, thorough 1..31), and all ranges started at v in 1..7; the response must be byte-identical (accepted) / rejected again. " +
			"(b) histories: every ordered pair of a 1-in-3 sub-corpus (thorough: all pairs + triples over a core) answers its baseline; state = fingerprint of all package-level variables. " +
			"(c) fresh processes: the 16 worker processes compute all baselines independently and must agree; 3 of them repeat all requests 3x on the unpatched-behaviour runtime path (true randomness). " +
			"(d) seeds: a recording generator factory shows every seed used comes from a *Seed field of the request (or the default 0); static scan (notes only, never a verdict): time/crypto-rand/os imports and package-level math/rand functions in lib or main.go. " +
			"states = fingerprints, transitions = executions, traces validated = executions whose response equalled the baseline.",
		Assume: []string{"map-order control covers every map range executed between decoding and serialising the response (incl. encoding/json's), for maps of up to 2^1 buckets exhaustively (start bucket x offset)",
			"goroutine scheduling is C10's subject; wall-clock independence is a static import scan (guard, not the deciding step)"},
		Run:      c02Run,
		Check:    c02Check,
		Finalize: c02Finalize,
	})
}

func decideControlled(body []byte, mode uint32, at int64, val uintptr) (string, []byte, int64) {
	dm, err := Decode(body)
	if err != nil {
		return "rejected", nil, 0
	}
	MapCtl(mode, at, val)
	out := DecideDM(dm, nil)
	n := MapCtl(1, -1, 0)
	if !out.Accepted {
		return "rejected", nil, n
	}
	return "accepted", out.Body, n
}

func c02Check(c *Case) []Violation {
	switch c.Kind {
	case "map-order":
		return c02MapOrder(c)
	case "map-order-case-keys":
		return c02CaseKeys(c)
	case "seeds":
		return c02Seeds(c)
	case "pair":
		vs := c09Pair(c)
		for i := range vs {
			vs[i].Sig = strings.Replace(vs[i].Sig, "C09/", "C02/", 1)
		}
		return vs
	case "free":
		return c02Free(c)
	case "service-pair":
		return c02ServicePair(c)
	}
	return nil
}

// c02ServicePair: the same request POSTed to the service's own handler twice in a row and after another request answers
// with the same status and bytes each time (the handler's own decoding and bookkeeping are part of "earlier requests").
func c02ServicePair(c *Case) []Violation {
	q := J(asM(c.Params["q"]))
	first := post(q)
	again := post(q)
	if first.Code != again.Code || (first.Code == 200 && !bytes.Equal(first.Body, again.Body)) {
		return []Violation{viol(c, "C02/service-repetition", "POST /api/decide answers %d and then %d%s for the same body", first.Code, again.Code, diffNote(first.Body, again.Body))}
	}
	post(J(asM(c.Params["p"])))
	after := post(q)
	stat("transitions")
	if first.Code != after.Code || (first.Code == 200 && !bytes.Equal(first.Body, after.Body)) {
		return []Violation{viol(c, "C02/service-history-dependence", "POST /api/decide answers %d before and %d%s after another request", first.Code, after.Code, diffNote(first.Body, after.Body))}
	}
	stat("traces_validated")
	return nil
}

func c02MapOrder(c *Case) []Violation {
	body := J(c.Req)
	verdict, base, n := decideControlled(body, 1, -1, 0)
	if at, ok := c.Params["range"]; ok {
		// replay of one deviation
		v2, b2, _ := decideControlled(body, uint32(asF(c.Params["mode"])), int64(asF(at)), uintptr(asF(c.Params["r"])))
		if v2 != verdict || !bytes.Equal(base, b2) {
			return []Violation{viol(c, "C02/map-order", "the response depends on map iteration order (range %v started at %v): %s vs %s", at, c.Params["r"], verdict, v2)}
		}
		return nil
	}
	var vs []Violation
	menu := toInts(c.Params["menu"])
	if cur != nil {
		cur.Count("map_ranges_per_request_total", n)
		cur.Outcome(true, "map", body)
	}
	for i := int64(0); i < n; i++ {
		for _, r := range menu {
			v2, b2, _ := decideControlled(body, 1, i, uintptr(r))
			stat("transitions")
			if v2 != verdict || !bytes.Equal(base, b2) {
				cc := &Case{Prop: "C02", Kind: "map-order", Req: c.Req, Params: M{"range": i, "r": r, "mode": 1}}
				vs = append(vs, viol(cc, "C02/map-order", "the response depends on map iteration order: with map range #%d of %d started at %d the request is %s%s instead of %s", i, n, r, v2, diffNote(base, b2), verdict))
				return vs
			}
			stat("traces_validated")
		}
	}
	for v := 1; v <= 7; v++ {
		v2, b2, _ := decideControlled(body, 2, -1, uintptr(v))
		stat("transitions")
		if v2 != verdict || !bytes.Equal(base, b2) {
			cc := &Case{Prop: "C02", Kind: "map-order", Req: c.Req, Params: M{"range": -1, "r": v, "mode": 2}}
			vs = append(vs, viol(cc, "C02/map-order", "the response depends on map iteration order: with every map range started at %d the request is %s%s instead of %s", v, v2, diffNote(base, b2), verdict))
			return vs
		}
		stat("traces_validated")
	}
	return vs
}

// caseKeyCorpus: parameter objects that carry the same option twice, spelt with different letter case. Such a request is
// accepted; which of the two spellings is used must not depend on map iteration order. Kept out of the shared corpora and
// under a signature of its own (see known_findings.txt), so that every other map-order dependence is still reported.
func caseKeyCorpus() []CorpusReq {
	ws := rootRequest("weightedSum", true, false)
	var out []CorpusReq
	add := func(name string, req M) {
		out = append(out, CorpusReq{Name: "case-keys/" + name, Req: req, Valid: true})
	}
	add("fatigue-randomSeed", withBiases(ws, []M{{"name": "fatigue", "props": M{"function": "const", "params": M{"value": 0.3}, "randomSeed": 1, "randomseed": 2}}}))
	add("omission-ordering", withBiases(ws, []M{{"name": "criteriaOmission", "props": M{"ratio": 0.34, "ordering": "weakest", "ORDERING": "strongest"}}}))
	add("majority-drawResolution", withMP(rootRequest("majorityHeuristic", true, false), M{"drawResolution": "current", "drawresolution": "newer"}))
	return out
}

func c02CaseKeys(c *Case) []Violation {
	vs := c02MapOrder(c)
	for i := range vs {
		vs[i].Sig = "C02/map-order/option-keys-differing-only-in-case"
		vs[i].Case = c
	}
	return vs
}

func diffNote(a, b []byte) string {
	if a == nil || b == nil {
		return ""
	}
	return " (" + firstDiff(string(a), string(b)) + ")"
}

// (c) true randomness path
func c02Free(c *Case) []Violation {
	body := J(c.Req)
	verdict, base, _ := decideControlled(body, 1, -1, 0)
	for k := 0; k < 3; k++ {
		MapHash0(0)
		v2, b2, _ := decideControlled(body, 0, -1, 0)
		MapHash0(0x9e3779b9)
		stat("transitions")
		if v2 != verdict || !bytes.Equal(base, b2) {
			return []Violation{viol(c, "C02/free-runtime", "with production map randomness the request is %s%s instead of %s", v2, diffNote(base, b2), verdict)}
		}
		stat("traces_validated")
	}
	return nil
}

func collectSeeds(v interface{}, out map[int64]bool) {
	switch x := v.(type) {
	case map[string]interface{}:
		for k, e := range x {
			if strings.HasSuffix(strings.ToLower(k), "seed") {
				out[int64(asF(e))] = true
			}
			collectSeeds(e, out)
		}
	case []interface{}:
		for _, e := range x {
			collectSeeds(e, out)
		}
	}
}

func c02Seeds(c *Case) []Violation {
	req := asM(roundTrip(c.Req))
	allowed := map[int64]bool{0: true}
	collectSeeds(req, allowed)
	real := map[int]utils.ValueGenerator{}
	script := &svc.Script{Answer: func(stream int, seed int64, call int) float64 {
		g := real[stream]
		if g == nil {
			g = utils.RandomBasedSeedValueGenerator(seed)
			real[stream] = g
		}
		return g()
	}}
	out := Decide(J(c.Req), script)
	plain := Decide(J(c.Req), nil)
	var vs []Violation
	if out.Accepted != plain.Accepted || !bytes.Equal(out.Body, plain.Body) {
		vs = append(vs, viol(c, "C02/seed-recorder-conformance", "the recording generator factory changes the response (the seam does not delegate faithfully)"))
	}
	for _, s := range out.Streams {
		if !allowed[s.Seed] {
			vs = append(vs, viol(c, "C02/seed-not-from-request", "a generator was seeded with %d, which is not a seed carried by the request (%v)", s.Seed, keysOf(allowed)))
		}
	}
	if cur != nil {
		cur.Count("generator_streams_recorded", int64(len(out.Streams)))
	}
	return vs
}

func keysOf(m map[int64]bool) []int64 {
	var o []int64
	for k := range m {
		o = append(o, k)
	}
	sort.Slice(o, func(i, j int) bool { return o[i] < o[j] })
	return o
}

// static guard: nothing in lib/** (non-test) or main.go imports time / crypto/rand / os or calls package-level math/rand.
func c02StaticScan(repo string) []string {
	var bad []string
	scan := func(path string) {
		fset := token.NewFileSet()
		f, err := parser.ParseFile(fset, path, nil, 0)
		if err != nil {
			return
		}
		randName := ""
		for _, im := range f.Imports {
			p := strings.Trim(im.Path.Value, `"`)
			if p == "time" || p == "crypto/rand" || p == "os" || p == "math/rand/v2" {
				bad = append(bad, fmt.Sprintf("%s imports %s", path, p))
			}
			if p == "math/rand" {
				randName = "rand"
				if im.Name != nil {
					randName = im.Name.Name
				}
			}
		}
		if randName == "" {
			return
		}
		ast.Inspect(f, func(n ast.Node) bool {
			if call, ok := n.(*ast.CallExpr); ok {
				if sel, ok := call.Fun.(*ast.SelectorExpr); ok {
					if id, ok := sel.X.(*ast.Ident); ok && id.Name == randName && sel.Sel.Name != "New" && sel.Sel.Name != "NewSource" {
						bad = append(bad, fmt.Sprintf("%s calls package-level %s.%s", path, randName, sel.Sel.Name))
					}
				}
			}
			return true
		})
	}
	filepath.Walk(filepath.Join(repo, "lib"), func(p string, info os.FileInfo, err error) error {
		if err == nil && !info.IsDir() && strings.HasSuffix(p, ".go") && !strings.HasSuffix(p, "_test.go") && !strings.Contains(p, "testUtils") {
			scan(p)
		}
		return nil
	})
	scan(filepath.Join(repo, "httpClient", "main.go"))
	return bad
}

func c02Run(s *Shard) {
	cur = s
	if !MapControl {
		s.Notes = append(s.Notes, "built without the runtime overlay: map order cannot be enumerated")
		s.Exhaustive = false
	}
	level := 1
	menu := []int{1, 2, 3, 4, 5, 6, 7, 9, 11, 14}
	if !quick(s) {
		level = 2
		menu = nil
		for r := 1; r <= 31; r++ {
			menu = append(menu, r)
		}
	}
	corpus := append(validCorpus(level), invalidCorpus()...)
	s.Bounds["corpus"] = len(corpus)
	s.Bounds["range_start_menu"] = menu
	// (c) every worker computes all baselines
	// each worker visits the corpus in a different order (rotation, odd workers reversed): if an earlier request
	// could influence a later one, the workers' baselines disagree and Finalize reports it
	bl := M{}
	order := make([]CorpusReq, len(corpus))
	for i := range corpus {
		j := (i*1 + s.Idx*len(corpus)/s.N) % len(corpus)
		if s.Idx%2 == 1 {
			j = len(corpus) - 1 - j
		}
		order[i] = corpus[j]
	}
	for _, r := range order {
		s.Begin(&Case{Prop: "C02", Kind: "map-order", Req: r.Req, Params: M{"menu": []int{}, "name": r.Name, "phase": "baseline"}})
		v, b, _ := decideControlled(J(r.Req), 1, -1, 0)
		if v == "accepted" {
			bl[r.Name] = bodyHash(b)
		} else {
			bl[r.Name] = "rejected"
		}
		s.Count("transitions", 1)
	}
	s.Data["baselines"] = bl
	s.Data["fingerprint"] = Fingerprint()
	sampled := false
	for _, r := range corpus {
		if !s.Take() {
			continue
		}
		c := &Case{Prop: "C02", Kind: "map-order", Req: r.Req, Params: M{"menu": menu, "name": r.Name}}
		s.Evals++
		s.Begin(c)
		s.Report(c02MapOrder(c))
		cs := &Case{Prop: "C02", Kind: "seeds", Req: r.Req, Params: M{"name": r.Name}}
		s.Evals++
		s.Begin(cs)
		s.Report(c02Seeds(cs))
		if !sampled && strings.Contains(r.Name, "anchoring") {
			s.Sample(M{"request": r.Req, "explored": "every map range of the execution started at every menu value, one at a time"})
			sampled = true
		}
	}
	for _, r := range caseKeyCorpus() {
		if !s.Take() {
			continue
		}
		c := &Case{Prop: "C02", Kind: "map-order-case-keys", Req: r.Req, Params: M{"menu": menu, "name": r.Name}}
		s.Evals++
		s.Begin(c)
		s.Report(c02CaseKeys(c))
	}
	// true randomness in three of the processes
	if s.Idx < 3 {
		for _, r := range corpus {
			c := &Case{Prop: "C02", Kind: "free", Req: r.Req, Params: M{"name": r.Name}}
			s.Evals++
			s.Begin(c)
			s.Report(c02Free(c))
		}
	}
	// (b) histories
	var pc []CorpusReq
	for i, r := range corpus {
		if !quick(s) || i%3 == 0 || r.Always {
			pc = append(pc, r)
		}
	}
	s.Bounds["pair_corpus"] = len(pc)
	for _, p := range pc {
		if !s.Take() {
			continue
		}
		for _, q := range pc {
			c := &Case{Prop: "C02", Kind: "pair", Params: M{"p": p.Req, "q": q.Req, "q_baseline": bl[q.Name], "p_name": p.Name, "q_name": q.Name}}
			s.Evals++
			s.Count("transitions", 2)
			s.Begin(c)
			s.Report(c02Check(c))
		}
	}
	// the same through the service's handler: every ordered pair of the small service corpus
	sc := c01ServiceCorpus()
	for _, p := range sc {
		for _, q := range sc {
			if !s.Take() {
				continue
			}
			c := &Case{Prop: "C02", Kind: "service-pair", Params: M{"p": p, "q": q}}
			s.Evals++
			s.Begin(c)
			s.Report(c02Check(c))
		}
	}
	if s.Idx == 0 {
		if repo := os.Getenv("VERIF_REPO_DIR"); repo != "" {
			for _, b := range c02StaticScan(repo) {
				// an import is not a dependence: reported as a note only (the dynamic clauses decide)
				s.Notes = append(s.Notes, "static scan: "+b)
				s.Count("static_scan_findings", 1)
			}
			s.Count("static_scan_done", 1)
		}
	}
}

func c02Finalize(m *Merged) {
	fps := map[string]bool{}
	var first map[string]interface{}
	for _, d := range m.ShardData {
		if f, ok := d["fingerprint"].(string); ok {
			fps[f] = true
		}
		bl := asM(d["baselines"])
		if bl == nil {
			continue
		}
		if first == nil {
			first = bl
			continue
		}
		for k, v := range first {
			if bl[k] != v {
				c := &Case{Prop: "C02", Kind: "fresh-process", Params: M{"name": k}}
				m.AddViolation(viol(c, "C02/fresh-process", "request %s answers %v in one fresh process and %v in another", k, v, bl[k]))
			}
		}
	}
	m.Extra["states"] = len(fps)
	m.Extra["transitions"] = m.Counters["transitions"]
	m.Extra["traces_validated_against_impl"] = m.Counters["traces_validated"]
	m.Extra["processes_compared"] = len(m.ShardData)
}
