package props

import (
	"fmt"

	sl "github.com/Azbesciak/RealDecisionMaker/lib/logic/limited-rationality/satisfaction-levels"
	"github.com/Azbesciak/RealDecisionMaker/lib/model"
	"github.com/Azbesciak/RealDecisionMaker/lib/utils"

	. "rdmverif/engine"
)

// C14 — generated aspiration levels follow the documented series and end (DESIGN.md 6.C14, A.7).

func init() {
	Register(&Property{
		ID: "C14", Level: "exploration",
		Rule: "E1 full product: 4 series x coefficient {0.001,0.1,0.25,0.5,0.75,0.999 + invalid 0,1,-0.5,1.5} x minValue,maxValue in {0,0.001,0.1,0.25,0.5,0.75,1 + invalid -0.1,1.1} " +
			"x criterion ranges {[0,10],[-5,5],[3,3],[-8,-2],[-4,0]} declared / observed x gain/cost. Driver (i): the exported level sources through Find+Initialize/HasNext/Next with a 1e6 step cap " +
			"(whole series: start, update rule, stop rule, clamping, placement, strict monotonicity, finiteness, rejection of out-of-range parameters); " +
			"driver (ii) end-to-end through the service: every threshold reported by aspect-elimination / satisfaction requests equals the reference series element at the reported index, " +
			"and each series name is accepted only by the heuristic it is documented for (wiring of httpClient/main.go), also after a criteria omission (bias-listener wiring). " +
			"distinct_nontrivial = distinct (series, parameters, range, type) with at least two levels.",
		Assume: []string{"driver (i) uses the library's exported source objects; which heuristic uses which source list is bound by driver (ii)"},
		Run:    c14Run,
		Check:  c14Check,
	})
}

var c14Coefs = []float64{0.001, 0.1, 0.25, 0.5, 0.75, 0.999, 0, 1, -0.5, 1.5}
var c14MinMax = []float64{0, 0.001, 0.1, 0.25, 0.5, 0.75, 1, -0.1, 1.1}

type c14Range struct {
	Lo, Hi   float64
	Declared bool
}

var c14Ranges = []c14Range{{0, 10, true}, {0, 10, false}, {-5, 5, true}, {-5, 5, false}, {3, 3, false}, {-8, -2, false}, {-8, -2, true}, {-4, 0, false}}

var c14Series = []struct {
	Name       string
	Increasing bool
}{{"idealMultipliedCoefficient", true}, {"idealAdditiveCoefficient", true}, {"idealMultipliedCoefficient", false}, {"idealSubtractiveCoefficient", false}}

func c14Sources(increasing bool) []sl.SatisfactionLevelsSource {
	if increasing {
		return []sl.SatisfactionLevelsSource{&sl.IdealIncreasingMulCoefficientSatisfaction, &sl.IdealAdditiveCoefficientSatisfaction, &sl.IncreasingThresholds}
	}
	return []sl.SatisfactionLevelsSource{&sl.IdealDecreasingMulCoefficientSatisfaction, &sl.IdealSubtrCoefficientSatisfaction, &sl.DecreasingThresholds}
}

func c14Check(c *Case) []Violation {
	switch c.Kind {
	case "series":
		return c14CheckSeries(c)
	case "wiring":
		return c14CheckWiring(c)
	}
	return nil
}

func c14CheckSeries(c *Case) []Violation {
	p := c.Params
	name, inc := asS(p["series"]), p["increasing"].(bool)
	coef, min, max := asF(p["coefficient"]), asF(p["minValue"]), asF(p["maxValue"])
	lo, hi, declared, cost := asF(p["lo"]), asF(p["hi"]), p["declared"].(bool), p["cost"].(bool)
	typ := model.Gain
	if cost {
		typ = model.Cost
	}
	cr := model.Criterion{Id: "c1", Type: typ}
	if declared {
		cr.ValuesRange = &utils.ValueRange{Min: lo, Max: hi}
	}
	dmp := &model.DecisionMakingParams{
		ConsideredAlternatives:    []model.AlternativeWithCriteria{{Id: "a", Criteria: model.Weights{"c1": lo}}},
		NotConsideredAlternatives: []model.AlternativeWithCriteria{{Id: "b", Criteria: model.Weights{"c1": hi}}},
		Criteria:                  model.Criteria{cr},
	}
	if declared { // declared range must win over the observed one
		dmp.ConsideredAlternatives[0].Criteria["c1"] = lo + 1
		dmp.NotConsideredAlternatives[0].Criteria["c1"] = hi + 7
	}
	refR, valid, ended := refRatios(inc, name, coef, min, max)
	var got []float64
	rejected, capped := false, false
	errText := ""
	func() {
		defer func() {
			if e := recover(); e != nil {
				rejected = true
				errText = fmt.Sprint(e)
			}
		}()
		lv := sl.Find(name, map[string]interface{}{"coefficient": coef, "minValue": min, "maxValue": max}, c14Sources(inc))
		lv.Initialize(dmp)
		for lv.HasNext() {
			if len(got) >= seriesCap {
				capped = true
				return
			}
			t := lv.Next()
			got = append(got, t["c1"])
		}
	}()
	if cur != nil {
		cur.Outcome(len(got) >= 2, name, inc, coef, min, max, lo, hi, declared, cost)
	}
	var vs []Violation
	if !valid {
		if !rejected {
			vs = append(vs, viol(c, "C14/invalid-accepted", "%s (increasing=%v) accepted out-of-range parameters coefficient=%v min=%v max=%v", name, inc, coef, min, max))
		}
		return vs
	}
	if rejected {
		return []Violation{viol(c, "C14/valid-rejected", "%s rejected valid parameters coefficient=%v min=%v max=%v: %s", name, coef, min, max, errText)}
	}
	if capped || !ended {
		if capped {
			vs = append(vs, viol(c, "C14/does-not-end", "%s coefficient=%v min=%v max=%v did not end within %d levels", name, coef, min, max, seriesCap))
		}
		return vs
	}
	// the same series again with minValue left out (documented default 0): for the increasing family this is the series
	// starting at 0, for the decreasing family it is out of range — whatever an earlier run used must not linger
	if min != 0 {
		var got2 []float64
		rejected2 := false
		func() {
			defer func() {
				if e := recover(); e != nil {
					rejected2 = true
				}
			}()
			lv := sl.Find(name, map[string]interface{}{"coefficient": coef, "maxValue": max}, c14Sources(inc))
			lv.Initialize(dmp)
			for lv.HasNext() && len(got2) < seriesCap {
				got2 = append(got2, lv.Next()["c1"])
			}
		}()
		ref2, valid2, _ := refRatios(inc, name, coef, 0, max)
		switch {
		case !valid2 && !rejected2:
			vs = append(vs, viol(c, "C14/omitted-min-not-default", "%s with minValue left out (default 0, out of range for this series) was accepted after a run with minValue %v", name, min))
		case valid2 && (rejected2 || len(got2) != len(ref2)):
			vs = append(vs, viol(c, "C14/omitted-min-not-default", "%s with minValue left out yields %d levels (rejected=%v), the series from the default 0 has %d (previous run used minValue %v)", name, len(got2), rejected2, len(ref2), min))
		}
	}
	ci := critInfo{ID: "c1", Cost: cost, Lo: lo, Hi: hi}
	if len(got) != len(refR) {
		return []Violation{viol(c, "C14/length", "%s coefficient=%v min=%v max=%v yields %d levels, the documented series has %d", name, coef, min, max, len(got), len(refR))}
	}
	for i, r := range refR {
		want := placeThreshold(ci, r)
		if !approx(got[i], want) {
			vs = append(vs, viol(c, "C14/level-value", "%s level %d = %v, expected %v (r=%v, range [%v,%v], cost=%v)", name, i, got[i], want, r, lo, hi, cost))
			break
		}
		if i > 0 && hi > lo {
			// strictly monotone in the direction of the series (towards harder for increasing)
			d := got[i] - got[i-1]
			if cost {
				d = -d
			}
			if (inc && d <= 0) || (!inc && d >= 0) {
				vs = append(vs, viol(c, "C14/not-monotone", "%s level %d = %v after %v", name, i, got[i], got[i-1]))
				break
			}
		}
	}
	return vs
}

// wiring: each series name must be accepted by exactly the heuristic documented for it.
func c14CheckWiring(c *Case) []Violation {
	out := Decide(J(c.Req), nil)
	want := c.Params["accept"].(bool)
	if out.Accepted != want {
		return []Violation{viol(c, "C14/wiring", "%s with level function %s: accepted=%v, documented=%v (%s)", asS(c.Params["method"]), asS(c.Params["function"]), out.Accepted, want, out.Err)}
	}
	if !out.Accepted {
		return nil
	}
	// the reported thresholds must be elements of the documented series for that heuristic
	req := asM(roundTrip(c.Req))
	resp, err := ParseResponse(out.Body)
	if err != nil {
		return []Violation{viol(c, "C14/unparsable", "%v", err)}
	}
	// a preceding omission: the series is generated for the remaining criteria (same per-criterion placement)
	om := map[string]bool{}
	for _, b := range resp.Biases {
		for _, o := range asL(asM(b["props"])["omittedCriteria"]) {
			om[asS(asM(o)["id"])] = true
		}
	}
	if len(om) > 0 {
		var kept []interface{}
		for _, cr := range asL(req["criteria"]) {
			if !om[asS(asM(cr)["id"])] {
				kept = append(kept, cr)
			}
		}
		req["criteria"] = kept
		for _, t := range asL(asM(asM(req["methodParameters"])["params"])["thresholds"]) {
			for id := range om {
				delete(asM(t), id)
			}
		}
		if w := asM(asM(req["methodParameters"])["weights"]); w != nil {
			for id := range om {
				delete(w, id)
			}
		}
	}
	if asS(req["preferenceFunction"]) == "aspectEliminationHeuristic" {
		return relabel(aeOracle(c, req, resp), "C14/e2e-")
	}
	return relabel(satOracle(c, req, resp), "C14/e2e-")
}

func relabel(vs []Violation, prefix string) []Violation {
	for i := range vs {
		vs[i].Sig = prefix + vs[i].Sig
	}
	return vs
}

func c14Run(s *Shard) {
	cur = s
	sampled := false
	for _, sr := range c14Series {
		for _, coef := range c14Coefs {
			for _, min := range c14MinMax {
				for _, max := range c14MinMax {
					for _, rg := range c14Ranges {
						for _, cost := range []bool{false, true} {
							if !s.Take() {
								continue
							}
							c := &Case{Prop: "C14", Kind: "series", Params: M{"series": sr.Name, "increasing": sr.Increasing, "coefficient": coef,
								"minValue": min, "maxValue": max, "lo": rg.Lo, "hi": rg.Hi, "declared": rg.Declared, "cost": cost}}
							s.Evals++
							s.Begin(c)
							s.Report(c14CheckSeries(c))
							if !sampled && coef == 0.25 && min == 0.1 && max == 0.75 {
								s.Sample(c.Params)
								sampled = true
							}
						}
					}
				}
			}
		}
	}
	// out-of-range parameters are rejected whatever the number of considered alternatives (1, 2)
	for _, method := range []string{"aspectEliminationHeuristic", "satisfactionHeuristic"} {
		for _, n := range []int{1, 2} {
			for _, bad := range []M{{"coefficient": 1.5, "minValue": 0.25, "maxValue": 1.0}, {"coefficient": 0.0, "minValue": 0.25, "maxValue": 1.0}, {"coefficient": 0.5, "minValue": -0.5, "maxValue": 1.0}, {"coefficient": 0.5, "minValue": 0.25, "maxValue": 1.5}} {
				if !s.Take() {
					continue
				}
				vals := [][]float64{{1, 2}, {2, 1}}[:n]
				var req M
				fname := "idealMultipliedCoefficient"
				if method == "aspectEliminationHeuristic" {
					req = aeRequest(aeCfg{N: n, Vals: vals, Types: []string{"gain", "cost"}, Weights: []float64{2, 1}, Spec: levelSpec{Fn: fname}, Extra: true})
				} else {
					req = satRequest(satCfg{N: n, Vals: vals, Types: []string{"gain", "cost"}, Spec: levelSpec{Fn: fname}, ZVal: 3})
				}
				asM(req["methodParameters"])["params"] = bad
				c := &Case{Prop: "C14", Kind: "wiring", Req: req, Params: M{"method": method, "function": fname, "accept": false}}
				s.Evals++
				s.Begin(c)
				s.Report(c14CheckWiring(c))
			}
		}
	}
	// a criterion with one value for every known alternative: every generated level sits exactly on that value
	aeDegenerate(s, "C14", func(c *Case) {
		c.Kind = "wiring"
		c.Params = M{"method": "aspectEliminationHeuristic", "function": asS(asM(asM(c.Req)["methodParameters"])["function"]), "accept": true}
		s.Evals++
		s.Begin(c)
		s.Report(c14CheckWiring(c))
	})
	// wiring through the service, with end-to-end threshold comparison on a small instance grid
	fnames := []string{"idealMultipliedCoefficient", "idealAdditiveCoefficient", "idealSubtractiveCoefficient", "thresholds"}
	for _, method := range []string{"aspectEliminationHeuristic", "satisfactionHeuristic"} {
		for _, fname := range fnames {
			for _, coef := range []float64{0.25, 0.1, 0.5} {
				for _, mm := range [][2]float64{{0.25, 0.75}, {0.1, 1}, {0.5, 1}} {
					Product([]int{3, 3, 3, 3, 3, 3}, func(idx []int) {
						if !s.Take() {
							return
						}
						vals := [][]float64{{float64(idx[0]), float64(idx[1])}, {float64(idx[2]), float64(idx[3])}, {float64(idx[4]), float64(idx[5])}}
						spec := levelSpec{Fn: fname, Coef: coef, Min: mm[0], Max: mm[1]}
						if fname == "thresholds" {
							spec.Explicit = []map[string]float64{{"c1": 1.5, "c2": 1.5}}
						}
						var req M
						accept := true
						types := []string{"gain", "cost"}
						if (idx[2]+idx[5])%2 == 1 {
							types = []string{"cost", "gain"} // a gain criterion listed after a cost criterion
						}
						if method == "aspectEliminationHeuristic" {
							req = aeRequest(aeCfg{N: 3, Vals: vals, Types: types, Weights: []float64{2, 1}, Spec: spec, Ranges: idx[0]%2 == 0, Mixed: idx[0]%2 == 1 && idx[1] == 1, Extra: true})
							accept = fname != "idealSubtractiveCoefficient"
						} else {
							req = satRequest(satCfg{N: 3, Vals: vals, Types: types, Spec: spec, Ranges: idx[0]%2 == 0, Mixed: idx[0]%2 == 1 && idx[1] == 1, ZVal: 3})
							accept = fname != "idealAdditiveCoefficient"
						}
						if (idx[3]+idx[4])%2 == 1 {
							req = renameIDs(req, map[string]string{"zz": "0a"}) // the never-considered alternative sorts first
						}
						c := &Case{Prop: "C14", Kind: "wiring", Req: req, Params: M{"method": method, "function": fname, "accept": accept}}
						s.Evals++
						s.Begin(c)
						s.Report(c14CheckWiring(c))
						if accept && (idx[1]+idx[3])%3 == 0 {
							// the same after a criteria omission: the heuristic's parameters then pass through the bias
							// listener wired in main.go before the series is generated
							cb := &Case{Prop: "C14", Kind: "wiring", Req: withBiases(req, []M{bias("criteriaOmission", M{"ratio": 0.5})}), Params: M{"method": method, "function": fname, "accept": true}}
							s.Evals++
							s.Begin(cb)
							s.Report(c14CheckWiring(cb))
						}
					})
				}
			}
		}
	}
}
