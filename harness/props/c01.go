package props

import (
	"sort"

	. "rdmverif/engine"
)

// C01 — every decision is a complete, well-formed ranking (DESIGN.md 6.C01).

func init() {
	Register(&Property{
		ID: "C01", Level: "exploration",
		Rule: "E1: the request enumerations of C04 (utility methods, n<=4 here), C11 (majority: all tie layouts of <=5 alternatives under all draw policies, currentChoice variants, scripted random order), " +
			"C12 (aspect elimination), C13 (satisfaction), C05 (ELECTRE III) and the depth<=2 bias sequences of C07, each response checked for: ids(result) == choseToMake (+currentChoice) as a multiset; " +
			"every betterThanOrSameAs subset of ids, without the entry itself, without duplicates. " +
			"distinct_nontrivial = distinct responses with >=2 entries and at least one non-empty link list.",
		Assume: []string{"tie layouts are generated from small value grids; see the per-method rules of C04/C05/C11/C12/C13"},
		Run:    c01Run,
		Check:  c01Check,
	})
}

func expectedIDs(req M) []string {
	ids := toStrings(req["choseToMake"])
	mp := asM(req["methodParameters"])
	m := asS(req["preferenceFunction"])
	if m == "majorityHeuristic" || m == "satisfactionHeuristic" {
		if cc := asS(mp["currentChoice"]); cc != "" && !contains(ids, cc) {
			ids = append(append([]string{}, ids...), cc)
		}
	}
	out := append([]string{}, ids...)
	sort.Strings(out)
	return out
}

func c01Check(c *Case) []Violation {
	req := asM(roundTrip(c.Req))
	out := Decide(J(c.Req), scriptFromCase(c))
	if !out.Accepted {
		if c.Kind == "bias-sequence" {
			stat("rejected_bias_combination(C07's subject)")
			return nil
		}
		return []Violation{viol(c, "C01/rejected", "valid request rejected: %s", out.Err)}
	}
	resp, err := ParseResponse(out.Body)
	if err != nil {
		return []Violation{viol(c, "C01/unparsable", "%v", err)}
	}
	if cur != nil {
		links := 0
		for _, e := range resp.Result {
			links += len(e.BetterThanOrSameAs)
		}
		cur.Outcome(len(resp.Result) >= 2 && links > 0, out.Body)
	}
	return wellFormed(c, resp, expectedIDs(req))
}

var liteEnum = false

func c01Run(s *Shard) {
	cur = s
	liteEnum = quick(s)
	run := func(c *Case) {
		c.Prop = "C01"
		s.Evals++
		s.Begin(c)
		s.Report(c01Check(c))
	}
	// utility methods
	maxN := 4
	for n := 1; n <= maxN; n++ {
		ids := ids6[:n]
		dims := make([]int, n)
		for i := range dims {
			dims[i] = 3
		}
		Product(dims, func(idx []int) {
			if !s.Take() {
				return
			}
			vals := make([]float64, n)
			for i, k := range idx {
				vals[i] = []float64{0, 0.7 + 1.4, 2.0 / 3}[k] // decimal utilities just below / above their 8-decimal rounding
			}
			for _, m := range utilMethods {
				for _, extra := range []bool{false, true} {
					run(&Case{Kind: "utility", Req: c04Request(m, ids, vals, ids, ids, extra)})
				}
			}
		})
	}
	majEnumerate(s, "C01", run)
	aeEnumerate(s, "C01", run)
	satEnumerate(s, "C01", run)
	for _, extra := range c01Extra {
		extra(s, run)
	}
	s.Sample(M{"request": majRequest(majCfg{N: 5, Vals: [][]float64{{1, 0}, {0, 1}, {1, 0}, {1, 1}, {1, 1}}, Types: []string{"gain", "gain"}, Weights: []float64{1, 1}, Policy: "allow"}),
		"why": "3-way tie group followed by a 2-way tie group (the layout of the repaired majority defect)"})
}

// c01Extra lets later-built generators (ELECTRE, bias sequences) join C01's enumeration.
var c01Extra []func(s *Shard, run func(c *Case))
