package props

import (
	"sort"

	. "rdmverif/engine"
)

// C01 — every decision is a complete, well-formed ranking (DESIGN.md 6.C01).

func init() {
	Register(&Property{
		ID: "C01", Level: "exploration",
		Rule: "E1: the request enumerations of C04 (utility methods, n<=4 here), C11 (majority: all tie layouts of <=5 alternatives under all draw policies, currentChoice variants, scripted random order), " +
			"C12 (aspect elimination), C13 (satisfaction), C05 (ELECTRE III) and the depth<=2 bias sequences of C07, each response checked for: ids(result) == choseToMake (+currentChoice) as a multiset; " +
			"every betterThanOrSameAs subset of ids, without the entry itself, without duplicates. " +
			"distinct_nontrivial = distinct responses with >=2 entries and at least one non-empty link list.",
		Assume: []string{"tie layouts are generated from small value grids; see the per-method rules of C04/C05/C11/C12/C13"},
		Run:    c01Run,
		Check:  c01Check,
	})
}

func expectedIDs(req M) []string {
	ids := toStrings(req["choseToMake"])
	mp := asM(req["methodParameters"])
	m := asS(req["preferenceFunction"])
	if m == "majorityHeuristic" || m == "satisfactionHeuristic" {
		if cc := asS(mp["currentChoice"]); cc != "" && !contains(ids, cc) {
			ids = append(append([]string{}, ids...), cc)
		}
	}
	out := append([]string{}, ids...)
	sort.Strings(out)
	return out
}

func c01Check(c *Case) []Violation {
	req := asM(roundTrip(c.Req))
	if pre, ok := c.Params["after_rejected"]; ok {
		// a request that is rejected half-way through its evaluation comes first (same process, nothing in between)
		if o := Decide(J(pre), nil); o.Accepted {
			stat("after_rejected_predecessor_was_accepted")
		}
	}
	if c.Kind == "service-history" {
		return c01ServiceHistory(c, req)
	}
	out := Decide(J(c.Req), scriptFromCase(c))
	if !out.Accepted {
		if c.Kind == "bias-sequence" {
			stat("rejected_bias_combination(C07's subject)")
			return nil
		}
		if c.Kind == "no-criterion-left" {
			stat("rejected_without_criteria(accepted requests only)")
			return nil
		}
		return []Violation{viol(c, "C01/rejected", "valid request rejected: %s", out.Err)}
	}
	resp, err := ParseResponse(out.Body)
	if err != nil {
		return []Violation{viol(c, "C01/unparsable", "%v", err)}
	}
	if cur != nil {
		links := 0
		for _, e := range resp.Result {
			links += len(e.BetterThanOrSameAs)
		}
		cur.Outcome(len(resp.Result) >= 2 && links > 0, out.Body)
	}
	return wellFormed(c, resp, expectedIDs(req))
}

// c01ServiceHistory: the request is POSTed to the service's own handler after another accepted request (observation point
// "POST /api/decide response body"): the answer must be the complete, well-formed ranking of THIS request.
func c01ServiceHistory(c *Case, req M) []Violation {
	if pre, ok := c.Params["after_accepted"]; ok {
		if r := post(J(pre)); r.Code != 200 {
			stat("service_history_predecessor_rejected")
		}
	}
	r := post(J(req))
	if r.Code != 200 {
		return []Violation{viol(c, "C01/rejected", "valid request answered %d by the service after another request: %.200s", r.Code, r.Body)}
	}
	resp, err := ParseResponse(r.Body)
	if err != nil {
		return []Violation{viol(c, "C01/unparsable", "%v", err)}
	}
	return wellFormed(c, resp, expectedIDs(req))
}

// c01ServiceCorpus: every method on the subset root; the two heuristics that know a current choice without one, with one
// outside and with one inside choseToMake.
func c01ServiceCorpus() []M {
	var out []M
	for _, m := range allMethods {
		out = append(out, rootRequest(m, true, false))
		if m == "majorityHeuristic" || m == "satisfactionHeuristic" {
			for _, cc := range []string{"b", "a"} {
				out = append(out, withMP(rootRequest(m, true, false), M{"currentChoice": cc}))
			}
			out = append(out, withMP(rootRequest(m, false, false), M{"currentChoice": "c", "randomAlternativesOrdering": true, "randomSeed": 4}))
		}
	}
	return out
}

var liteEnum = false

func c01Run(s *Shard) {
	cur = s
	liteEnum = quick(s)
	run := func(c *Case) {
		c.Prop = "C01"
		s.Evals++
		s.Begin(c)
		s.Report(c01Check(c))
	}
	// utility methods
	maxN := 4
	for n := 1; n <= maxN; n++ {
		ids := ids6[:n]
		dims := make([]int, n)
		for i := range dims {
			dims[i] = 3
		}
		Product(dims, func(idx []int) {
			if !s.Take() {
				return
			}
			vals := make([]float64, n)
			for i, k := range idx {
				vals[i] = []float64{0, 0.7 + 1.4, 2.0 / 3}[k] // decimal utilities just below / above their 8-decimal rounding
			}
			for _, m := range utilMethods {
				for _, extra := range []bool{false, true} {
					run(&Case{Kind: "utility", Req: c04Request(m, ids, vals, ids, ids, extra)})
				}
			}
		})
	}
	// an accepted request right after a request that is rejected while its alternatives are being evaluated (at the first,
	// a middle and the last considered alternative): nothing of the rejected one may show in the accepted one's result
	for _, m := range allMethods {
		for _, bad := range []int{0, 2, 4} {
			ids := ids6[:5]
			vals := []float64{3, 1, 2, 1, 0}
			pre := c04Request(utilMethods[bad%3], ids, vals, ids, ids, false)
			if m == "electreIII" || m == "majorityHeuristic" || m == "aspectEliminationHeuristic" || m == "satisfactionHeuristic" {
				pre = rootRequest(m, false, false)
				bad = bad % 3
			}
			pre2 := asM(deepCopy(pre))
			asM(asM(asL(pre2["knownAlternatives"])[bad])["criteria"])["undeclared"] = 1.0 // a value for a criterion nobody declared
			delete(asM(asM(asL(pre["knownAlternatives"])[bad])["criteria"]), "c1")        // a declared criterion without a value
			for _, p := range []M{pre, M(pre2)} {
				for _, sub := range []bool{false, true} {
					if !s.Take() {
						continue
					}
					follow := rootRequest(m, sub, false)
					if m == "weightedSum" || m == "owa" || m == "choquetIntegral" {
						follow = c04Request(m, []string{"x", "y"}, []float64{1, 2}, []string{"x", "y"}, []string{"y", "x"}, false)
					}
					run(&Case{Kind: "after-rejected", Req: follow, Params: M{"after_rejected": p}})
				}
			}
		}
	}
	// no criterion left when the method runs (every criterion omitted), currentChoice inside / outside choseToMake
	for _, m := range allMethods {
		for _, sub := range []bool{false, true} {
			for _, cc := range []string{"", "a", "b"} {
				for _, chain := range [][]M{{bias("criteriaOmission", M{"ratio": 1.0})}, {bias("criteriaOmission", M{"ratio": 0.5}), bias("criteriaOmission", M{"ratio": 0.0, "min": 2})}} {
					if !s.Take() {
						continue
					}
					root := rootRequest(m, sub, false)
					if cc != "" {
						if m != "majorityHeuristic" && m != "satisfactionHeuristic" {
							continue
						}
						root = withMP(root, M{"currentChoice": cc})
					}
					run(&Case{Kind: "no-criterion-left", Req: withBiases(root, chain)})
				}
			}
		}
	}
	// every ordered pair of the service corpus, POSTed one after the other to the service's handler
	sc := c01ServiceCorpus()
	for _, p := range sc {
		for _, q := range sc {
			if !s.Take() {
				continue
			}
			run(&Case{Kind: "service-history", Req: q, Params: M{"after_accepted": p}})
		}
	}
	majEnumerate(s, "C01", run)
	aeEnumerate(s, "C01", run)
	satEnumerate(s, "C01", run)
	for _, extra := range c01Extra {
		extra(s, run)
	}
	s.Sample(M{"request": majRequest(majCfg{N: 5, Vals: [][]float64{{1, 0}, {0, 1}, {1, 0}, {1, 1}, {1, 1}}, Types: []string{"gain", "gain"}, Weights: []float64{1, 1}, Policy: "allow"}),
		"why": "3-way tie group followed by a 2-way tie group (the layout of the repaired majority defect)"})
}

// c01Extra lets later-built generators (ELECTRE, bias sequences) join C01's enumeration.
var c01Extra []func(s *Shard, run func(c *Case))
