package props

import (
	"bytes"
	"encoding/json"
	"fmt"
	"io"
	"net"
	"net/http"
	"net/http/httptest"
	"os"
	"os/exec"
	"path/filepath"
	"strings"
	"sync"
	"time"

	. "rdmverif/engine"
	"rdmverif/svc"
)

// C20 — the HTTP service answers every request and survives it (DESIGN.md 6.C20, A.14). E2 over request histories
// against the service's own gin engine (same middlewares, routes and handlers as main()).

func init() {
	Register(&Property{
		ID: "C20", Level: "model_checking",
		Rule: "E2: server = the gin engine built by the service's own main() (re-packaged), driven through ServeHTTP in a supervised worker process (a fatal error kills the worker and is attributed to the announced request). " +
			"Alphabet: malformed bodies (empty, null, [], scalars, every prefix of a valid body cut at a token boundary, every top-level field mistyped, 1e999, 20000-deep nesting), " +
			"every documented constraint violated one at a time on a valid base per method (invalid corpus, ~70 rules), valid corpus Σ. Bound: every single request; ordered pairs (history depth 2): quick = every request paired both ways with ~35 representatives (every 20th of each class, all distillation-function and tied-best requests), thorough = all pairs, " +
			"depth 3 over class representatives, and the whole alphabet as one session against the REAL service binary built from httpClient/ on a loop-back port, verdicts cross-checked with the in-process engine) with a liveness probe after each step (GET /api/preferenceFunctions lists the 7 methods; a fixed valid decide returns its baseline bytes). " +
			"State = (alive, fingerprint of package-level state, probe bytes); expected reachable set: one state. Oracle: valid => 200 with result and biases; otherwise 400 with error and the echoed request; " +
			"a constraint violation is never answered 200; unknown method/bias errors list the available names. states/transitions/traces as counted.",
		Assume:   []string{"HTTP transport below ServeHTTP (net/http connection handling) is not part of the explored system in the quick tier; the thorough tier adds one session against the real binary"},
		Run:      c20Run,
		Check:    c20Check,
		Finalize: c20Finalize,
	})
}

var engineOnce sync.Once
var engineH http.Handler

func server() http.Handler {
	engineOnce.Do(func() { engineH = svc.BuildEngine() })
	return engineH
}

type httpResp struct {
	Code int
	Body []byte
}

func post(body []byte) httpResp {
	req := httptest.NewRequest("POST", "/api/decide", bytes.NewReader(body))
	req.Header.Set("Content-Type", "application/json")
	w := httptest.NewRecorder()
	server().ServeHTTP(w, req)
	return httpResp{w.Code, w.Body.Bytes()}
}

func getFunctions() httpResp {
	req := httptest.NewRequest("GET", "/api/preferenceFunctions", nil)
	w := httptest.NewRecorder()
	server().ServeHTTP(w, req)
	return httpResp{w.Code, w.Body.Bytes()}
}

type c20Req struct {
	Name  string
	Body  string
	Class string // valid | invalid | malformed
	Rule  string
}

func malformedBodies() []c20Req {
	var out []c20Req
	add := func(name, body string) {
		out = append(out, c20Req{Name: "malformed/" + name, Body: body, Class: "malformed"})
	}
	add("empty", "")
	add("null", "null")
	add("array", "[]")
	add("number", "5")
	add("string", `"decide"`)
	add("true", "true")
	add("not-json", "preferenceFunction=owa")
	valid := string(J(rootRequest("weightedSum", true, false)))
	// every proper prefix cut at a token boundary
	for i, ch := range valid {
		if strings.ContainsRune("{}[],:", ch) && i > 0 {
			add(fmt.Sprintf("prefix-%d", i), valid[:i])
		}
	}
	base := rootRequest("weightedSum", true, false)
	for _, f := range []string{"preferenceFunction", "biases", "biasApplyRandomSeed", "knownAlternatives", "choseToMake", "criteria", "methodParameters"} {
		for ti, v := range []interface{}{5.0, "text", L{1.0}, M{"x": 1.0}, true} {
			if f == "preferenceFunction" && ti == 1 {
				continue
			}
			if f == "biasApplyRandomSeed" && ti == 0 {
				continue
			}
			if (f == "knownAlternatives" || f == "choseToMake" || f == "criteria" || f == "biases") && ti == 2 {
				v = L{L{1.0}}
			}
			if f == "methodParameters" && ti == 3 {
				continue
			}
			add(fmt.Sprintf("mistyped-%s-%d", f, ti), string(J(set(base, v, f))))
		}
	}
	add("criterion-value-string", string(J(set(base, "high", "knownAlternatives", 0, "criteria", "c1"))))
	add("seed-fraction", strings.Replace(valid, `"biasApplyRandomSeed":1`, `"biasApplyRandomSeed":1.5`, 1))
	add("number-overflow", strings.Replace(valid, `"c1":1`, `"c1":1e999`, 1))
	add("deep-nesting", `{"methodParameters":`+strings.Repeat("[", 20000)+strings.Repeat("]", 20000)+"}")
	add("trailing-garbage-object", valid[:len(valid)-1])
	return out
}

func c20Alphabet(level int) []c20Req {
	out := malformedBodies()
	for _, r := range invalidCorpus() {
		out = append(out, c20Req{Name: r.Name, Body: string(J(r.Req)), Class: "invalid", Rule: r.Rule})
	}
	for _, r := range validCorpus(level) {
		out = append(out, c20Req{Name: r.Name, Body: string(J(r.Req)), Class: "valid"})
	}
	return out
}

var methodNames = allMethods
var biasNames = []string{"anchoring", "criteriaConcealment", "criteriaMixing", "preferenceReversal", "criteriaOmission", "fatigue"}

// verdict checks one response against the class of its request.
func c20Verdict(c *Case, r c20Req, resp httpResp) []Violation {
	var vs []Violation
	var obj map[string]interface{}
	perr := json.Unmarshal(resp.Body, &obj)
	switch r.Class {
	case "valid":
		if resp.Code != 200 || perr != nil || obj["result"] == nil || obj["biases"] == nil {
			vs = append(vs, viol(c, "C20/valid-not-200", "valid request %s answered %d: %.200s", r.Name, resp.Code, resp.Body))
		}
	default:
		if resp.Code == 200 {
			sig := "C20/malformed-answered-200"
			if r.Class == "invalid" {
				sig = "C20/constraint-violation-answered-200/" + r.Rule
			}
			vs = append(vs, viol(c, sig, "request %s (violates: %s) was answered 200 with a ranking: %.200s", r.Name, r.Rule, resp.Body))
		} else if resp.Code != 400 || perr != nil || obj["error"] == nil {
			vs = append(vs, viol(c, "C20/rejection-shape", "request %s answered %d without the documented {error, request} body: %.200s", r.Name, resp.Code, resp.Body))
		} else {
			if _, ok := obj["request"]; !ok {
				vs = append(vs, viol(c, "C20/request-not-echoed", "rejection of %s does not echo the request: %.200s", r.Name, resp.Body))
			}
			if r.Class == "invalid" {
				// the echoed request is the request that was sent: same alternatives with the same values, nothing a
				// bias generated on the way to the rejection
				var sent map[string]interface{}
				if json.Unmarshal([]byte(r.Body), &sent) == nil {
					sk, ek := asL(sent["knownAlternatives"]), asL(asM(obj["request"])["knownAlternatives"])
					if len(sk) != len(ek) {
						vs = append(vs, viol(c, "C20/echo-differs", "rejection of %s echoes %d known alternatives, %d were sent", r.Name, len(ek), len(sk)))
					}
					for i := 0; i < len(sk) && i < len(ek); i++ {
						sa, ea := asM(sk[i]), asM(ek[i])
						if sa == nil || ea == nil {
							continue
						}
						sc, ec := asM(sa["criteria"]), asM(ea["criteria"])
						bad := asS(sa["id"]) != asS(ea["id"])
						for k, v := range ec {
							if sv, ok := sc[k]; !ok || J(sv) == nil || string(J(sv)) != string(J(v)) {
								bad = true
							}
						}
						if bad {
							vs = append(vs, viol(c, "C20/echo-differs", "rejection of %s echoes alternative %d as %v, it was sent as %v", r.Name, i, ea, sa))
							break
						}
					}
				}
			}
			msg := fmt.Sprint(obj["error"])
			if r.Rule == "unknown-preference-function" {
				for _, n := range methodNames {
					if !strings.Contains(msg, n) {
						vs = append(vs, viol(c, "C20/available-names-not-listed", "unknown method error does not list %s: %s", n, msg))
					}
				}
			}
			if r.Rule == "unknown-bias-name" {
				for _, n := range biasNames {
					if !strings.Contains(msg, n) {
						vs = append(vs, viol(c, "C20/available-names-not-listed", "unknown bias error does not list %s: %s", n, msg))
					}
				}
			}
		}
	}
	return vs
}

var probeBody = J(rootRequest("owa", true, false))
var probeBaseline []byte
var functionsBaseline []byte

func c20Probe(c *Case, after string, full bool) []Violation {
	var vs []Violation
	if !full {
		p := post(probeBody)
		if p.Code != 200 || !bytes.Equal(p.Body, probeBaseline) {
			vs = append(vs, viol(c, "C20/probe-decide", "after %s: the fixed valid request answers %d / different bytes than from a fresh server", after, p.Code))
		}
		return vs
	}
	f := getFunctions()
	var fm map[string]interface{}
	if f.Code != 200 || json.Unmarshal(f.Body, &fm) != nil {
		return []Violation{viol(c, "C20/probe-functions", "after %s: GET /api/preferenceFunctions answered %d %.100s", after, f.Code, f.Body)}
	}
	for _, n := range methodNames {
		if fm[n] == nil {
			vs = append(vs, viol(c, "C20/probe-functions", "after %s: GET /api/preferenceFunctions lacks a schema for %s", after, n))
		}
	}
	if functionsBaseline == nil {
		functionsBaseline = f.Body
	} else if !bytes.Equal(functionsBaseline, f.Body) {
		vs = append(vs, viol(c, "C20/probe-functions-changed", "after %s: GET /api/preferenceFunctions answers differently than before", after))
	}
	p := post(probeBody)
	if probeBaseline == nil {
		probeBaseline = p.Body
	}
	if p.Code != 200 || !bytes.Equal(p.Body, probeBaseline) {
		vs = append(vs, viol(c, "C20/probe-decide", "after %s: the fixed valid request answers %d / different bytes than from a fresh server", after, p.Code))
	}
	return vs
}

func reqFromParams(v interface{}) c20Req {
	var r c20Req
	jsonUnmarshal(J(v), &r)
	return r
}

func c20Check(c *Case) []Violation {
	var hist []c20Req
	jsonUnmarshal(J(c.Params["history"]), &hist)
	return c20History(c, hist)
}

func c20History(c *Case, hist []c20Req) []Violation {
	var vs []Violation
	fp0 := Fingerprint()
	for i, r := range hist {
		resp := post([]byte(r.Body))
		vs = append(vs, c20Verdict(c, r, resp)...)
		vs = append(vs, c20Probe(c, r.Name, i == len(hist)-1)...)
	}
	if fp := Fingerprint(); fp != fp0 {
		vs = append(vs, viol(c, "C20/shared-state-changed", "fingerprint of the process-wide state changed by the history"))
	}
	return vs
}

func c20Run(s *Shard) {
	cur = s
	level := 0
	if !quick(s) {
		level = 1
	}
	alpha := c20Alphabet(level)
	s.Bounds["alphabet"] = len(alpha)
	classes := map[string]int{}
	for _, a := range alpha {
		classes[a.Class]++
	}
	s.Bounds["alphabet_by_class"] = classes
	// establish baselines on the fresh server of this worker
	c0 := &Case{Prop: "C20", Kind: "history", Params: M{"history": L{}}}
	s.Report(c20Probe(c0, "startup", true))
	s.Data["fingerprint"] = Fingerprint()
	s.Data["probe"] = bodyHash(probeBaseline)
	sampled := false
	// representatives for the quick tier's depth-2 histories: every 20th request of each class, every request whose rule
	// mentions the distillation function (historically fatal) and the tied-best series requests (historically endless)
	rep := make([]bool, len(alpha))
	perClass := map[string]int{}
	for i, a := range alpha {
		perClass[a.Class]++
		if perClass[a.Class]%20 == 1 || strings.Contains(a.Rule, "distillation") || strings.Contains(a.Name, "tied-best") {
			rep[i] = true
		}
	}
	// depth 1 and depth 2
	for i, a := range alpha {
		if !s.Take() {
			continue
		}
		c := &Case{Prop: "C20", Kind: "history", Params: M{"history": []c20Req{a}}}
		s.Evals++
		s.Count("transitions", 1)
		s.Begin(c)
		vs := c20History(c, []c20Req{a})
		s.Report(vs)
		s.Outcome(true, "h1", a.Name)
		if len(vs) > 0 {
			continue
		}
		for bi, b := range alpha {
			if quick(s) && !rep[i] && !rep[bi] {
				continue // quick tier: every request is paired (both ways) with every representative; thorough: all pairs
			}
			c := &Case{Prop: "C20", Kind: "history", Params: M{"history": []c20Req{a, b}}}
			s.Evals++
			s.Count("transitions", 2)
			s.Begin(c)
			s.Report(c20History(c, []c20Req{a, b}))
			s.Outcome(true, "h2", a.Name, b.Name)
		}
		if !sampled && a.Class == "invalid" {
			s.Sample(M{"history": []string{a.Name, alpha[len(alpha)-1].Name}, "first_body": a.Body})
			sampled = true
		}
	}
	if !quick(s) && s.Idx == 0 {
		c20RealBinary(s, alpha)
	}
	if !quick(s) {
		// depth 3 over one representative per class/rule family
		var reps []c20Req
		seen := map[string]bool{}
		for _, a := range alpha {
			key := a.Class + "/" + strings.SplitN(a.Rule+"-", "-", 2)[0]
			if a.Class == "valid" {
				key = strings.SplitN(a.Name, "/", 2)[0] + strings.SplitN(a.Name+"#", "#", 2)[0][strings.LastIndex(strings.SplitN(a.Name+"#", "#", 2)[0], "/")+1:]
			}
			if a.Class == "malformed" {
				key = strings.SplitN(a.Name, "-", 2)[0]
			}
			if !seen[key] {
				seen[key] = true
				reps = append(reps, a)
			}
		}
		s.Bounds["depth3_representatives"] = len(reps)
		for _, a := range reps {
			for _, b := range reps {
				if !s.Take() {
					continue
				}
				for _, d := range reps {
					c := &Case{Prop: "C20", Kind: "history", Params: M{"history": []c20Req{a, b, d}}}
					s.Evals++
					s.Count("transitions", 3)
					s.Begin(c)
					s.Report(c20History(c, []c20Req{a, b, d}))
				}
			}
		}
	}
}

// ---- thorough tier: the real service binary on a loop-back port ------------------------------------------------

type realServer struct {
	cmd  *exec.Cmd
	base string
	done chan error
}

func startRealServer() (*realServer, error) {
	bin := filepath.Join(os.Getenv("VERIF_BUILD_DIR"), "rdmserver")
	if _, err := os.Stat(bin); err != nil {
		return nil, err
	}
	l, err := net.Listen("tcp", "127.0.0.1:0")
	if err != nil {
		return nil, err
	}
	port := l.Addr().(*net.TCPAddr).Port
	l.Close()
	cmd := exec.Command(bin)
	cmd.Env = append(os.Environ(), fmt.Sprintf("PORT=%d", port), "GIN_MODE=release")
	cmd.Dir = os.TempDir()
	cmd.Stdout, cmd.Stderr = nil, nil
	if err := cmd.Start(); err != nil {
		return nil, err
	}
	rs := &realServer{cmd: cmd, base: fmt.Sprintf("http://127.0.0.1:%d", port), done: make(chan error, 1)}
	go func() { rs.done <- cmd.Wait() }()
	for i := 0; i < 200; i++ {
		if resp, err := http.Get(rs.base + "/api/preferenceFunctions"); err == nil {
			resp.Body.Close()
			return rs, nil
		}
		select {
		case <-rs.done:
			return nil, fmt.Errorf("service binary exited during start-up")
		case <-time.After(50 * time.Millisecond):
		}
	}
	cmd.Process.Kill()
	return nil, fmt.Errorf("service binary did not start answering")
}

func (rs *realServer) alive() bool {
	select {
	case <-rs.done:
		return false
	default:
		return true
	}
}

func (rs *realServer) post(body string) (httpResp, error) {
	cl := &http.Client{Timeout: 30 * time.Second}
	resp, err := cl.Post(rs.base+"/api/decide", "application/json", strings.NewReader(body))
	if err != nil {
		return httpResp{}, err
	}
	defer resp.Body.Close()
	b, _ := io.ReadAll(resp.Body)
	return httpResp{resp.StatusCode, b}, nil
}

// c20RealBinary sends every request of the alphabet once (history = the whole sequence) to ONE real server process and
// probes it after each; a dead process or a changed probe is attributed to the request just sent. The verdict of every
// response must equal the in-process engine's verdict for the same body (conformance of the two drivers).
func c20RealBinary(s *Shard, alpha []c20Req) {
	rs, err := startRealServer()
	c0 := &Case{Prop: "C20", Kind: "real-binary", Params: M{"history": []c20Req{}}}
	if err != nil {
		s.Notes = append(s.Notes, "real-binary driver not run: "+err.Error())
		s.Exhaustive = false
		return
	}
	defer func() {
		rs.cmd.Process.Kill()
	}()
	probe, perr := rs.post(string(probeBody))
	if perr != nil || probe.Code != 200 {
		s.Report([]Violation{viol(c0, "C20/real-binary-probe", "fresh service process does not answer the probe: %v %d", perr, probe.Code)})
		return
	}
	for i, a := range alpha {
		c := &Case{Prop: "C20", Kind: "real-binary", Params: M{"history": []c20Req{a}, "position_in_session": i}}
		s.Evals++
		s.Count("transitions", 1)
		s.Count("real_binary_requests", 1)
		resp, err := rs.post(a.Body)
		if err != nil || !rs.alive() {
			s.Report([]Violation{viol(c, "C20/real-binary-died", "the service process stopped answering / exited on request %s: %v", a.Name, err)})
			return
		}
		s.Report(c20Verdict(c, a, resp))
		mem := post([]byte(a.Body))
		if mem.Code != resp.Code {
			s.Report([]Violation{viol(c, "C20/drivers-disagree", "request %s: the real binary answers %d, the in-process engine %d", a.Name, resp.Code, mem.Code)})
		}
		p, perr := rs.post(string(probeBody))
		if perr != nil || p.Code != 200 || !bytes.Equal(p.Body, probe.Body) {
			s.Report([]Violation{viol(c, "C20/real-binary-probe", "after %s the real service answers the fixed valid request differently (%v, %d)", a.Name, perr, p.Code)})
			return
		}
	}
	s.Count("traces_validated", int64(len(alpha)))
}

func c20Finalize(m *Merged) {
	states := map[string]bool{}
	for _, d := range m.ShardData {
		states[fmt.Sprint(d["fingerprint"], "/", d["probe"])] = true
	}
	m.Extra["states"] = len(states)
	m.Extra["transitions"] = m.Counters["transitions"]
	m.Extra["traces_validated_against_impl"] = m.Counters["transitions"]
	if len(states) > 1 {
		c := &Case{Prop: "C20", Kind: "history", Params: M{"history": L{}}}
		m.AddViolation(viol(c, "C20/fresh-processes-differ", "fresh server processes start in %d different states (fingerprint/probe bytes)", len(states)))
	}
}
