package props

import (
	"bytes"
	"fmt"
	"math"
	"sort"
	"strings"

	. "rdmverif/engine"
)

// C15 — criteria omission removes exactly the requested share, weakest first (DESIGN.md 6.C15, A.8).

var allMethods = []string{"weightedSum", "owa", "choquetIntegral", "electreIII", "majorityHeuristic", "aspectEliminationHeuristic", "satisfactionHeuristic"}
var orderings = []string{"", "weakest", "strongest", "random", "weakestByProbability", "strongestByProbability"}

func init() {
	Register(&Property{
		ID: "C15", Level: "exploration",
		Rule: "E1: 7 methods x criteria n in 2..4 x considered values full product ({1,2,3}^(2n) for n=2, {1,2}^(2n) for n=3,4) x 3 weight vectors (ascending, descending, with a tie); " +
			"options within 2 deviations (n=4: 1) of the default over: ratio {0.5,0,0.25,0.34,0.75,1,0.3333333333,0.9999999999}, min {-,0,1,2}, max {-,0,1,2}, ordering (5 + default), an undeclared extra parameter entry, one cost criterion, " +
			"random seed / scripted constant generator answers. Oracle: k = clamp(floor(n*ratio),min,max) omitted, all declared and reported; result bytes == result of the request with those criteria deleted everywhere; " +
			"weakest: no kept criterion less important than an omitted one under the documented importance; strongest (k=n-1) is the exact reverse of weakest; random orderings are permutations; " +
			"frequency clause over real seeds 0..4095: weakestByProbability puts the least important criterion first more often than the most important one (strongestByProbability the opposite). " +
			"distinct_nontrivial = distinct (method, instance, options) in which at least one criterion was omitted.",
		Assume: []string{"cases where k >= n (every criterion removed) are outside the domain and skipped (counted)",
			"for aspect elimination the reduced-request equivalence is only claimed (and checked) for pairwise distinct weights"},
		Run:      c15Run,
		Check:    c15Check,
		Finalize: c15Finalize,
	})
}

type c15Cfg struct {
	Method string
	N      int
	Vals   [][]float64 // 2 considered alternatives x n
	W      []float64
	Ratio  float64
	Min    int // -1 absent
	Max    int // -1 absent
	Order  string
	Extra  bool
	Cost   bool
	Seed   int64
	Script float64 // <0: real generator
	Bias   string  // criteriaOmission | preferenceReversal
	Ranges bool
	Pascal bool // option keys spelled the way the README names them (Ratio, Min, Max, Ordering, RandomSeed): decoding is case-insensitive
}

// methodParams builds methodParameters for the criteria ids with weights w.
func methodParams(method string, cids []string, w map[string]float64, extra bool) M {
	wm := M{}
	for _, c := range cids {
		wm[c] = w[c]
	}
	switch method {
	case "weightedSum", "owa":
		if extra && method == "weightedSum" {
			wm["undeclared"] = 7.0
		}
		return M{"weights": wm}
	case "choquetIntegral":
		caps := M{}
		for _, sub := range subsetsOf(cids) {
			t := 0.0
			for _, c := range sub {
				t += w[c] / 16
			}
			caps[strings.Join(sub, ",")] = t
		}
		return M{"weights": caps}
	case "electreIII":
		ec := M{}
		for _, c := range cids {
			ec[c] = M{"k": w[c], "q": M{"b": 0.5}, "p": M{"b": 1.5}}
		}
		if extra {
			ec["undeclared"] = M{"k": 0.5}
		}
		return M{"electreCriteria": ec}
	case "majorityHeuristic":
		if extra {
			wm["undeclared"] = 0.5
		}
		return M{"weights": wm, "drawResolution": "newer"} // non-default policy: must survive parameter rewriting
	case "aspectEliminationHeuristic":
		if extra {
			wm["undeclared"] = 0.5
		}
		t1, t2 := M{}, M{}
		for _, c := range cids {
			t1[c] = 1.5
			t2[c] = 2.5
		}
		if extra {
			t1["undeclared"] = 1.0
			t2["undeclared"] = 2.0
		}
		return M{"weights": wm, "function": "thresholds", "params": M{"thresholds": L{t1, t2}}}
	case "satisfactionHeuristic":
		t1, t2 := M{}, M{}
		for _, c := range cids {
			t1[c] = 2.5
			t2[c] = 1.5
		}
		return M{"function": "thresholds", "params": M{"thresholds": L{t1, t2}}}
	}
	panic("unknown method " + method)
}

func c15Base(cfg c15Cfg, cids []string, omit map[string]bool, withBias bool) M {
	var crits L
	w := map[string]float64{}
	var kept []string
	for j, id := range critIDs(cfg.N) {
		w[id] = cfg.W[j]
		if omit[id] {
			continue
		}
		kept = append(kept, id)
		t := "gain"
		if cfg.Cost && j == 0 {
			t = "cost"
		}
		if cfg.Ranges {
			crits = append(crits, critR(id, t, 0, 4))
		} else {
			crits = append(crits, crit(id, t))
		}
	}
	mk := func(id string, vals []float64) M {
		cv := map[string]float64{}
		for j, c := range critIDs(cfg.N) {
			if !omit[c] {
				cv[c] = vals[j]
			}
		}
		return alt(id, cv)
	}
	zv := make([]float64, cfg.N)
	for j := range zv {
		zv[j] = 2.5 - float64(j%2)
	}
	req := M{
		"preferenceFunction": cfg.Method,
		"knownAlternatives":  L{mk("a", cfg.Vals[0]), mk("b", cfg.Vals[1]), mk("zz", zv)},
		"choseToMake":        L{"a", "b"},
		"criteria":           crits,
		"methodParameters":   methodParams(cfg.Method, kept, w, cfg.Extra && withBias),
	}
	if withBias {
		props := M{"ratio": cfg.Ratio, "randomSeed": cfg.Seed}
		if cfg.Min >= 0 {
			props["min"] = cfg.Min
		}
		if cfg.Max >= 0 {
			props["max"] = cfg.Max
		}
		if cfg.Order != "" {
			props["ordering"] = cfg.Order
		}
		if cfg.Pascal {
			pp := M{}
			for k, v := range props {
				pp[strings.ToUpper(k[:1])+k[1:]] = v
			}
			props = pp
		}
		bias := cfg.Bias
		if bias == "" {
			bias = "criteriaOmission"
		}
		req["biases"] = L{M{"name": bias, "props": props}}
	}
	return req
}

func c15K(cfg c15Cfg) int {
	k := int(math.Floor(float64(cfg.N) * cfg.Ratio))
	if cfg.Min >= 0 && k < cfg.Min {
		k = cfg.Min
	} else if cfg.Max >= 0 && k > cfg.Max {
		k = cfg.Max
	}
	return k
}

// importance per A.8 over the considered alternatives a,b
func c15Importance(cfg c15Cfg) map[string]float64 {
	cids := critIDs(cfg.N)
	imp := map[string]float64{}
	switch cfg.Method {
	case "weightedSum":
		for j, c := range cids {
			imp[c] = cfg.W[j]*cfg.Vals[0][j] + cfg.W[j]*cfg.Vals[1][j]
		}
	case "owa", "satisfactionHeuristic":
		for j, c := range cids {
			imp[c] = cfg.Vals[0][j] + cfg.Vals[1][j]
		}
	case "majorityHeuristic", "aspectEliminationHeuristic", "electreIII":
		for j, c := range cids {
			imp[c] = cfg.W[j]
		}
	case "choquetIntegral":
		caps := map[string]float64{}
		for k, v := range asM(methodParams(cfg.Method, cids, c15Weights(cfg), false)["weights"]) {
			caps[k] = asF(v)
		}
		for _, c := range cids {
			imp[c] = 0
		}
		for a := 0; a < 2; a++ {
			type cv struct {
				c string
				v float64
			}
			var xs []cv
			for j, c := range cids {
				xs = append(xs, cv{c, cfg.Vals[a][j]})
			}
			sort.SliceStable(xs, func(i, j int) bool { return xs[i].v < xs[j].v })
			prev := 0.0
			for i := 0; i < len(xs); {
				j := i + 1
				for j < len(xs) && math.Abs(xs[j].v-xs[i].v) <= 1e-5 {
					j++
				}
				var upper []string
				for _, x := range xs[i:] {
					upper = append(upper, x.c)
				}
				sort.Strings(upper)
				inc := caps[strings.Join(upper, ",")] * (xs[i].v - prev)
				for _, u := range upper {
					imp[u] += inc
				}
				prev = xs[i].v
				i = j
			}
		}
	}
	return imp
}

func c15Weights(cfg c15Cfg) map[string]float64 {
	w := map[string]float64{}
	for j, id := range critIDs(cfg.N) {
		w[id] = cfg.W[j]
	}
	return w
}

func cfg15FromCase(c *Case) c15Cfg {
	var cfg c15Cfg
	if err := jsonUnmarshal(J(c.Params["cfg"]), &cfg); err != nil {
		panic(err)
	}
	return cfg
}

// c15Options: the method's own options (seeded random search order, current choice, draw policy) are not the omission's
// business: the answer equals the answer to the request with the reported criteria deleted and every option kept.
func c15Options(c *Case) []Violation {
	out := Decide(J(c.Req), nil)
	if !out.Accepted {
		return []Violation{viol(c, "C15/rejected", "valid request with an omission rejected: %s", out.Err)}
	}
	resp, err := ParseResponse(out.Body)
	if err != nil {
		return []Violation{viol(c, "C15/unparsable", "%v", err)}
	}
	red := reducedByOmissions(asM(roundTrip(c.Req)), resp)
	out2 := Decide(J(red), nil)
	stat("transitions")
	if !out2.Accepted {
		return []Violation{viol(c, "C15/reduced-rejected", "the request with the reported criteria deleted is rejected: %s", out2.Err)}
	}
	r2, _ := ParseResponse(out2.Body)
	if r2 == nil || string(J(resp.Result)) != string(J(r2.Result)) {
		return []Violation{viol(c, "C15/reduced-request", "result after the omission differs from the result of the request with those criteria deleted (method options kept): %s vs %s", J(resp.Result), J(r2.Result))}
	}
	stat("traces_validated")
	return nil
}

func c15Check(c *Case) []Violation {
	if c.Kind == "frequency" {
		return c15Frequency(c)
	}
	if c.Kind == "options" {
		return c15Options(c)
	}
	cfg := cfg15FromCase(c)
	if c.Kind == "omission-twice" {
		return c15CheckTwice(c, cfg)
	}
	_, vs := c15CheckCfg(c, cfg)
	return vs
}

func omittedIDs(resp *Response, i int) ([]string, bool) {
	if i >= len(resp.Biases) {
		return nil, false
	}
	p := asM(resp.Biases[i]["props"])
	if p == nil {
		return nil, false
	}
	var out []string
	for _, o := range asL(p["omittedCriteria"]) {
		out = append(out, asS(asM(o)["id"]))
	}
	return out, true
}

func c15Decide(req M, cfg c15Cfg) Outcome {
	if cfg.Script >= 0 {
		return Decide(J(req), ConstScript(cfg.Script))
	}
	return Decide(J(req), nil)
}

func c15CheckCfg(c *Case, cfg c15Cfg) ([]string, []Violation) {
	cids := critIDs(cfg.N)
	k := c15K(cfg)
	if k >= cfg.N {
		stat("outside_domain_all_criteria_removed")
		return nil, nil
	}
	if cfg.Extra && (cfg.Method == "owa" || cfg.Method == "choquetIntegral" || cfg.Method == "satisfactionHeuristic") {
		stat("extra_entry_not_applicable_for_method")
		return nil, nil
	}
	req := c15Base(cfg, cids, nil, true)
	out := c15Decide(req, cfg)
	if !out.Accepted {
		return nil, []Violation{viol(c, "C15/rejected", "%s with criteria omission (k=%d of %d) rejected: %s", cfg.Method, k, cfg.N, out.Err)}
	}
	resp, err := ParseResponse(out.Body)
	if err != nil {
		return nil, []Violation{viol(c, "C15/unparsable", "%v", err)}
	}
	omitted, ok := omittedIDs(resp, 0)
	if !ok {
		return nil, []Violation{viol(c, "C15/no-report", "omission reports no omittedCriteria: %v", resp.Biases)}
	}
	var vs []Violation
	if len(omitted) != k {
		vs = append(vs, viol(c, "C15/count", "%d criteria omitted %v, expected k=clamp(floor(%d*%v),min,max)=%d", len(omitted), omitted, cfg.N, cfg.Ratio, k))
	}
	om := map[string]bool{}
	for _, o := range omitted {
		if !contains(cids, o) {
			vs = append(vs, viol(c, "C15/undeclared-omitted", "omitted criterion %q is not among the declared criteria %v", o, cids))
		}
		if om[o] {
			vs = append(vs, viol(c, "C15/omitted-twice", "criterion %q omitted twice: %v", o, omitted))
		}
		om[o] = true
	}
	if len(vs) > 0 {
		return omitted, vs
	}
	// the decision equals the one for the request with those criteria deleted
	distinctW := true
	for i := range cfg.W[:cfg.N] {
		for j := i + 1; j < cfg.N; j++ {
			if cfg.W[i] == cfg.W[j] {
				distinctW = false
			}
		}
	}
	if cfg.Method != "aspectEliminationHeuristic" || distinctW {
		red := c15Base(cfg, cids, om, false)
		out2 := Decide(J(red), nil)
		if !out2.Accepted {
			vs = append(vs, viol(c, "C15/reduced-rejected", "the request with criteria %v deleted is rejected: %s", omitted, out2.Err))
		} else {
			r2, _ := ParseResponse(out2.Body)
			if !bytes.Equal(J(resp.Result), J(r2.Result)) {
				vs = append(vs, viol(c, "C15/reduced-request", "result after omitting %v differs from the result of the request with those criteria deleted: %s vs %s", omitted, J(resp.Result), J(r2.Result)))
			}
		}
	}
	imp := c15Importance(cfg)
	switch cfg.Order {
	case "", "weakest":
		for _, o := range omitted {
			for _, kc := range cids {
				if !om[kc] && imp[kc] < imp[o]-1e-9 {
					vs = append(vs, viol(c, "C15/weakest-order", "ordering weakest omitted %s (importance %v) but kept the less important %s (%v)", o, imp[o], kc, imp[kc]))
				}
			}
		}
	case "strongest":
		for _, o := range omitted {
			for _, kc := range cids {
				if !om[kc] && imp[kc] > imp[o]+1e-9 {
					vs = append(vs, viol(c, "C15/strongest-order", "ordering strongest omitted %s (importance %v) but kept the more important %s (%v)", o, imp[o], kc, imp[kc]))
				}
			}
		}
	}
	if cur != nil {
		cur.Outcome(len(omitted) > 0, fmt.Sprint(cfg))
	}
	return omitted, vs
}

// c15CheckTwice: the omission listed twice in one request (the second one works on what the first one left). Each report
// lists criteria that were still there when it was produced, the two lists are disjoint, and the decision equals the one
// for the request with both lists deleted.
func c15CheckTwice(c *Case, cfg c15Cfg) []Violation {
	cids := critIDs(cfg.N)
	k1 := c15K(cfg)
	c2 := cfg
	c2.N = cfg.N - k1
	k2 := c15K(c2)
	if k1 < 1 || k1+k2 >= cfg.N {
		stat("twice_outside_domain")
		return nil
	}
	req := c15Base(cfg, cids, nil, true)
	bs := asL(req["biases"])
	req["biases"] = L{bs[0], deepCopy(bs[0])}
	out := c15Decide(req, cfg)
	if !out.Accepted {
		return []Violation{viol(c, "C15/rejected", "%s with the omission listed twice (k=%d then %d of %d) rejected: %s", cfg.Method, k1, k2, cfg.N, out.Err)}
	}
	resp, err := ParseResponse(out.Body)
	if err != nil {
		return []Violation{viol(c, "C15/unparsable", "%v", err)}
	}
	o1, ok1 := omittedIDs(resp, 0)
	o2, ok2 := omittedIDs(resp, 1)
	if !ok1 || !ok2 {
		return []Violation{viol(c, "C15/no-report", "an omission listed twice reports %v", resp.Biases)}
	}
	if len(o1) != k1 || len(o2) != k2 {
		return []Violation{viol(c, "C15/count", "omission listed twice on %d criteria: omitted %v then %v, expected %d then %d", cfg.N, o1, o2, k1, k2)}
	}
	om := map[string]bool{}
	for _, o := range append(append([]string{}, o1...), o2...) {
		if !contains(cids, o) {
			return []Violation{viol(c, "C15/undeclared-omitted", "omitted criterion %q is not among the declared criteria %v", o, cids)}
		}
		if om[o] {
			return []Violation{viol(c, "C15/omitted-twice", "criterion %q is reported as omitted by both applications: %v then %v", o, o1, o2)}
		}
		om[o] = true
	}
	distinctW := true
	for i := range cfg.W[:cfg.N] {
		for j := i + 1; j < cfg.N; j++ {
			if cfg.W[i] == cfg.W[j] {
				distinctW = false
			}
		}
	}
	if cfg.Method == "aspectEliminationHeuristic" && !distinctW {
		return nil
	}
	out2 := Decide(J(c15Base(cfg, cids, om, false)), nil)
	if !out2.Accepted {
		return []Violation{viol(c, "C15/reduced-rejected", "the request with criteria %v and %v deleted is rejected: %s", o1, o2, out2.Err)}
	}
	r2, _ := ParseResponse(out2.Body)
	if !bytes.Equal(J(resp.Result), J(r2.Result)) {
		return []Violation{viol(c, "C15/reduced-request", "result after omitting %v and then %v differs from the result of the request with those criteria deleted: %s vs %s", o1, o2, J(resp.Result), J(r2.Result))}
	}
	return nil
}

// c15Sequence returns the full ordering observed with k = n-1 (omitted list + the kept criterion).
func c15Sequence(cfg c15Cfg) ([]string, string) {
	cfg.Ratio, cfg.Min, cfg.Max = 0, cfg.N-1, -1
	req := c15Base(cfg, critIDs(cfg.N), nil, true)
	out := c15Decide(req, cfg)
	if !out.Accepted {
		return nil, out.Err
	}
	resp, _ := ParseResponse(out.Body)
	om, _ := omittedIDs(resp, 0)
	seq := append([]string{}, om...)
	for _, c := range critIDs(cfg.N) {
		if !contains(om, c) {
			seq = append(seq, c)
		}
	}
	return seq, ""
}

func c15Frequency(c *Case) []Violation {
	cfg := cfg15FromCase(c)
	lo, hi := int64(asF(c.Params["seed_lo"])), int64(asF(c.Params["seed_hi"]))
	imp := c15Importance(cfg)
	cids := critIDs(cfg.N)
	least, most := cids[0], cids[0]
	for _, x := range cids {
		if imp[x] < imp[least] {
			least = x
		}
		if imp[x] > imp[most] {
			most = x
		}
	}
	nl, nm := 0, 0
	for seed := lo; seed < hi; seed++ {
		cfg.Seed, cfg.Script = seed, -1
		cfg.Ratio, cfg.Min, cfg.Max = 0, 1, -1
		out := Decide(J(c15Base(cfg, cids, nil, true)), nil)
		if !out.Accepted {
			return []Violation{viol(c, "C15/rejected", "rejected: %s", out.Err)}
		}
		resp, _ := ParseResponse(out.Body)
		om, _ := omittedIDs(resp, 0)
		if len(om) == 1 && om[0] == least {
			nl++
		}
		if len(om) == 1 && om[0] == most {
			nm++
		}
	}
	if cur != nil {
		cur.Data[fmt.Sprintf("freq/%s/%s/%d", asS(c.Params["tag"]), cfg.Order, lo)] = []int{nl, nm}
		return nil
	}
	return nil
}

func c15Run(s *Shard) {
	cur = s
	// method options next to an omission: five alternatives whose ranking is the (seeded) search order
	for _, m := range []string{"aspectEliminationHeuristic", "satisfactionHeuristic", "majorityHeuristic"} {
		seededOrderCases(s, "C15", m, func(c *Case) {
			for _, ob := range []M{{"ratio": 0.34, "ordering": "weakest"}, {"ratio": 0.34, "ordering": "strongest"}} {
				for _, cc := range []string{"", "d"} {
					if cc != "" && m == "aspectEliminationHeuristic" {
						continue
					}
					req := withBiases(asM(c.Req), []M{bias("criteriaOmission", ob)})
					if cc != "" {
						req = withMP(req, M{"currentChoice": cc})
					}
					oc := &Case{Prop: "C15", Kind: "options", Req: req}
					s.Evals++
					s.Begin(oc)
					s.Report(c15Options(oc))
				}
			}
		})
	}
	wsets := map[int][][]float64{2: {{1, 2}, {2, 1}, {2, 2}, {0, 1}}, 3: {{1, 2, 3}, {3, 2, 1}, {2, 2, 1}, {1, 0, 2}, {5e-7, 1e-7, 3e-7}}, 4: {{1, 2, 3, 4}, {4, 3, 2, 1}, {2, 2, 1, 3}}}
	ratios := []float64{0.5, 0, 0.25, 0.34, 0.75, 1, 0.3333333333, 0.9999999999}
	mins := []int{-1, 0, 1, 2}
	maxs := []int{-1, 0, 1, 2}
	seeds := []struct {
		seed   int64
		script float64
	}{{0, -1}, {7, -1}, {0, 0}, {0, 0.5}, {0, 1 - 1.0/(1<<53)}}
	menus := []int{len(ratios), len(mins), len(maxs), len(orderings), 2, 2, len(seeds), 2}
	sampled := false
	for _, n := range []int{2, 3, 4} {
		levels := []float64{1, 2}
		if n == 2 {
			levels = []float64{1, 2, 3}
		}
		dev := 2
		if n == 4 {
			dev = 1
		}
		var opts [][]int
		Deviations(menus, dev, func(idx []int) { opts = append(opts, append([]int{}, idx...)) })
		dims := make([]int, 2*n)
		for i := range dims {
			dims[i] = len(levels)
		}
		Product(dims, func(idx []int) {
			if !s.Take() {
				return
			}
			vals := [][]float64{make([]float64, n), make([]float64, n)}
			for i, k := range idx {
				vals[i/n][i%n] = levels[k]
			}
			for _, method := range allMethods {
				for _, w := range wsets[n] {
					hasZero := false
					for _, x := range w {
						if x == 0 {
							hasZero = true
						}
					}
					if hasZero && method == "electreIII" {
						continue // ELECTRE weights must be positive
					}
					for _, o := range opts {
						if mins[o[1]] >= 0 && maxs[o[2]] >= 0 && maxs[o[2]] < mins[o[1]] {
							continue // max < min is rejected by validation (C20's subject)
						}
						cfg := c15Cfg{Method: method, N: n, Vals: vals, W: w, Ratio: ratios[o[0]], Min: mins[o[1]], Max: maxs[o[2]], Order: orderings[o[3]],
							Extra: o[4] == 1, Cost: o[5] == 1 && method != "choquetIntegral", Seed: seeds[o[6]].seed, Script: seeds[o[6]].script, Ranges: o[7] == 1}
						c := &Case{Prop: "C15", Kind: "omission", Params: M{"cfg": cfg}}
						s.Evals++
						s.Begin(c)
						_, vs := c15CheckCfg(c, cfg)
						s.Report(vs)
						if !sampled && n == 3 && cfg.Order == "strongest" {
							s.Sample(M{"request": c15Base(cfg, critIDs(n), nil, true)})
							sampled = true
						}
					}
					// option keys in the README's spelling (decoding is case-insensitive), every ordering
					if n == 3 {
						for _, ord := range orderings {
							for _, sd := range seeds[:3] {
								pc := c15Cfg{Method: method, N: n, Vals: vals, W: w, Ratio: 0.34, Min: 1, Max: 2, Order: ord, Seed: sd.seed, Script: sd.script, Pascal: true}
								c := &Case{Prop: "C15", Kind: "omission", Params: M{"cfg": pc}}
								s.Evals++
								s.Begin(c)
								_, vs := c15CheckCfg(c, pc)
								s.Report(vs)
							}
						}
					}
					// the omission listed twice, every ordering, real seeds and a scripted generator
					if n >= 3 {
						for _, ord := range orderings {
							for _, sd := range seeds[1:4] {
								tc := c15Cfg{Method: method, N: n, Vals: vals, W: w, Ratio: 0.34, Min: 1, Max: -1, Order: ord, Seed: sd.seed, Script: sd.script}
								if n == 4 {
									tc.Ratio, tc.Min = 0.5, -1
								}
								c := &Case{Prop: "C15", Kind: "omission-twice", Params: M{"cfg": tc}}
								s.Evals++
								s.Begin(c)
								s.Report(c15CheckTwice(c, tc))
							}
						}
					}
					// strongest is the exact reverse of weakest; random orderings are permutations (k = n-1)
					base := c15Cfg{Method: method, N: n, Vals: vals, W: w, Script: -1}
					base.Order = "weakest"
					ws, e1 := c15Sequence(base)
					base.Order = "strongest"
					ss, e2 := c15Sequence(base)
					cc := &Case{Prop: "C15", Kind: "omission", Params: M{"cfg": base}}
					s.Evals += 2
					if ws == nil || ss == nil {
						s.Report([]Violation{viol(cc, "C15/rejected", "k=n-1 omission rejected: %s %s", e1, e2)})
					} else {
						for i := range ws {
							if len(ss) != len(ws) || ws[i] != ss[len(ss)-1-i] {
								s.Report([]Violation{viol(cc, "C15/strongest-not-reverse", "weakest order %v, strongest order %v: not exact reverses", ws, ss)})
								break
							}
						}
					}
					for _, ord := range []string{"random", "weakestByProbability", "strongestByProbability"} {
						for _, sd := range seeds {
							pc := base
							pc.Order, pc.Seed, pc.Script = ord, sd.seed, sd.script
							seq, e := c15Sequence(pc)
							s.Evals++
							pcase := &Case{Prop: "C15", Kind: "omission", Params: M{"cfg": pc}}
							if seq == nil {
								s.Report([]Violation{viol(pcase, "C15/rejected", "ordering %s rejected: %s", ord, e)})
							} else if !sameSet(seq, critIDs(n)) || hasDup(seq) {
								s.Report([]Violation{viol(pcase, "C15/not-a-permutation", "ordering %s yields %v which is not a permutation of %v", ord, seq, critIDs(n))})
							}
						}
					}
				}
			}
		})
	}
	// many criteria: 14 and 21 (beyond the size where sorts change strategy; ids c1..c21 do not sort numerically), pairwise
	// distinct weights declared in a scrambled order, and a variant with runs of equal weights
	for _, n := range []int{14, 21} {
		for _, method := range allMethods {
			if method == "choquetIntegral" {
				continue // 2^n capacities
			}
			for wi := 0; wi < 2; wi++ {
				for pat := 0; pat < 3; pat++ {
					if !s.Take() {
						continue
					}
					w := make([]float64, n)
					vals := [][]float64{make([]float64, n), make([]float64, n)}
					for j := range w {
						w[j] = float64((j*5)%n + 1)
						if wi == 1 {
							w[j] = float64((j*5)%n/3 + 1) // runs of three equal weights
						}
						vals[0][j] = float64((j*(pat+2))%n%4 + 1)
						vals[1][j] = float64((j*(pat+3)+1)%n%4 + 1)
					}
					for _, ord := range orderings {
						for _, ratio := range []float64{0.34, 0.5, 0.75} {
							for _, sd := range seeds[:3] {
								cfg := c15Cfg{Method: method, N: n, Vals: vals, W: w, Ratio: ratio, Min: -1, Max: -1, Order: ord, Seed: sd.seed, Script: sd.script}
								c := &Case{Prop: "C15", Kind: "omission", Params: M{"cfg": cfg}}
								s.Evals++
								s.Begin(c)
								_, vs := c15CheckCfg(c, cfg)
								s.Report(vs)
							}
						}
					}
				}
			}
		}
	}
	// counts at the edge of the floor: float64(n)*ratio just below a whole number
	for _, e := range floorEdgeCounts() {
		n := int(e[0])
		for _, method := range []string{"weightedSum", "majorityHeuristic", "electreIII", "owa"} {
			if !s.Take() {
				continue
			}
			w := make([]float64, n)
			vals := [][]float64{make([]float64, n), make([]float64, n)}
			for j := range w {
				w[j] = float64((j*5)%n + 1)
				vals[0][j] = float64((j*3)%n%4 + 1)
				vals[1][j] = float64((j*7+1)%n%4 + 1)
			}
			for _, ord := range []string{"", "strongest", "random"} {
				cfg := c15Cfg{Method: method, N: n, Vals: vals, W: w, Ratio: e[1], Min: -1, Max: -1, Order: ord, Seed: 7, Script: -1}
				c := &Case{Prop: "C15", Kind: "omission", Params: M{"cfg": cfg}}
				s.Evals++
				s.Begin(c)
				_, vs := c15CheckCfg(c, cfg)
				s.Report(vs)
			}
		}
	}
	// frequency clause
	maxSeed := int64(4096)
	if !quick(s) {
		maxSeed = 16384
	}
	s.Bounds["frequency_seeds"] = maxSeed
	for _, method := range append(append([]string{}, allMethods...), "majorityHeuristic#zero", "aspectEliminationHeuristic#zero", "weightedSum#zero",
		"weightedSum#n2", "majorityHeuristic#n2", "weightedSum#n4", "electreIII#n4") { // an even number of criteria (2, 4) as well
		for _, ord := range []string{"weakestByProbability", "strongestByProbability"} {
			for lo := int64(0); lo < maxSeed; lo += 512 {
				if !s.Take() {
					continue
				}
				cfg := c15FreqCfg(method, ord)
				c := &Case{Prop: "C15", Kind: "frequency", Params: M{"cfg": cfg, "seed_lo": lo, "seed_hi": lo + 512, "tag": method}}
				s.Evals += 512
				s.Begin(c)
				s.Report(c15Frequency(c))
			}
		}
	}
}

// c15FreqCfg: the instance swept over real seeds; "<method>#zero" gives the least important criterion importance exactly 0.
func c15FreqCfg(method, ord string) c15Cfg {
	w := []float64{1, 2, 4}
	if strings.HasSuffix(method, "#zero") {
		method = strings.TrimSuffix(method, "#zero")
		w = []float64{0, 1, 3}
	}
	if strings.HasSuffix(method, "#n2") {
		return c15Cfg{Method: strings.TrimSuffix(method, "#n2"), N: 2, Vals: [][]float64{{1, 3}, {1, 3}}, W: []float64{1, 4}, Order: ord, Script: -1}
	}
	if strings.HasSuffix(method, "#n4") {
		return c15Cfg{Method: strings.TrimSuffix(method, "#n4"), N: 4, Vals: [][]float64{{1, 2, 3, 4}, {1, 2, 3, 4}}, W: []float64{1, 2, 4, 8}, Order: ord, Script: -1}
	}
	return c15Cfg{Method: method, N: 3, Vals: [][]float64{{1, 2, 3}, {1, 2, 3}}, W: w, Order: ord, Script: -1}
}

func c15Finalize(m *Merged) {
	type key struct{ method, ord string }
	tot := map[key][2]int{}
	for _, d := range m.ShardData {
		for k, v := range d {
			parts := strings.Split(k, "/")
			if len(parts) != 4 || parts[0] != "freq" {
				continue
			}
			f := toInts(v)
			t := tot[key{parts[1], parts[2]}]
			t[0] += f[0]
			t[1] += f[1]
			tot[key{parts[1], parts[2]}] = t
		}
	}
	obs := M{}
	for k, t := range tot {
		obs[k.method+"/"+k.ord] = M{"least_important_first": t[0], "most_important_first": t[1]}
		bad := (k.ord == "weakestByProbability" && t[0] <= t[1]) || (k.ord == "strongestByProbability" && t[1] <= t[0])
		if bad {
			cfg := c15FreqCfg(k.method, k.ord)
			c := &Case{Prop: "C15", Kind: "frequency", Params: M{"cfg": cfg, "seed_lo": 0, "seed_hi": 4096}}
			m.AddViolation(viol(c, "C15/frequency/"+k.ord, "%s with %s: least important criterion first %d times, most important first %d times", k.method, k.ord, t[0], t[1]))
		}
	}
	m.Extra["first_omitted_counts"] = obs
}
