package props

import . "rdmverif/engine"

// Additions to the enumeration rules made after the independently written changes of rounds 3-5 (DESIGN.md section 12);
// appended to each property's Rule so that the evidence files describe what is generated today.
var ruleAddenda = map[string]string{
	"C01": " ADDED: an accepted request right after a request rejected while its alternatives are evaluated; every criterion omitted (ratio 1, two omissions) with currentChoice absent / inside / outside; 13..31-alternative majority, aspect and satisfaction requests.",
	"C02": " ADDED to the corpus: same-shape twins (same ids, rotated values, other weights) and a shorter request with the same ids; one activation seed with 1, 2, 3 entries of probability 0.5; random-order requests whose ranking is the search order; one bias kind twice; single-valued / all-zero criteria and all-zero weights under every rescaling bias; ELECTRE instances with decimal weights on the outranking line.",
	"C03": " ADDED: 7 and 8 Choquet criteria (additive and squared capacities), 13 and 21 criteria for weightedSum / owa, three value shapes, alone / after omission / after fatigue.",
	"C04": " ADDED: id set {x1,X1,b,B} for n<=3; no criterion left (declared empty, omission ratio 1, two omissions) under all listings for n<=4; levels -1e-9 (negative zero) and 1e-9.",
	"C05": " ADDED: values around 1e18 with thresholds the float grid rounds up / down / keeps; listings in non-ascending id order; pair family of 4x4 matrices (6 pairs x (6 levels x kinds of {mutual, one-sided[, other-sided]} + none), >=5 distinct levels, s(x) in {0.05, 0.1-0.05x}); near-cut pairs x = 1.15y + 0.3 +- {1e-10..2e-8}.",
	"C06": " ADDED: weight scaling by 2^-40, 2, 2^40; mixed-scale directed grids; 63..130 (thorough 31..257) alternatives (few distinct profiles among identical fillers) under three listing rotations.",
	"C07": " ADDED: roots with a single-valued criterion and with an all-zero criterion; plans {core, idle} and {idle, core} with probability-0 entries; three long requests (10, 12, 10 biases), every prefix a transition.",
	"C08": " ADDED: lists of 63, 64, 65, 70, 130 entries x 4 patterns (all enabled / some probability 0 / some disabled / alternating 0.25); fresh-process differential per (seed, probability vector): prefixes of the list first here, last in a fresh process.",
	"C09": " ADDED: per step, reported omitted / added criteria == criteria difference of the states; chains whose omission takes every criterion.",
	"C10": " ADDED: option twins (omission / reversal with ordering random, weakestByProbability, strongest on criteria c1..c3 and k1..k5), rejected 50-alternative requests; race pass: eight concurrent copies of 130-alternative ELECTRE, 200-alternative OWA / weightedSum, 60-alternative majority requests.",
	"C11": " ADDED: 13, 16, 31 alternatives x 4 value patterns x {allow, current, newer} x currentChoice {none, considered, known only}; choseToMake reversed against the catalogue order; seeds 0..7 with random order answered three times and by a fresh process.",
	"C12": " ADDED: 14 and 23 criteria; 13, 16, 31 alternatives; declared ranges narrower than the values; single-valued criterion x decimal coefficients; series of 1204 and 1601 levels; minValue omitted; choseToMake reversed against the catalogue order; seeded random order answered three times and by a fresh process.",
	"C13": " ADDED: 13, 16, 31 alternatives x currentChoice {none, considered, known only}; series of 1204 and 1601 levels; choseToMake reversed against the catalogue order; untidy ids; seeded random order answered three times and by a fresh process.",
	"C14": " ADDED: wiring after a criteria omission; out-of-range parameters with 1 and 2 considered alternatives.",
	"C15": " ADDED: 14 and 21 criteria (distinct weights / runs of equal weights) x 5 orderings x ratios {0.34,0.5,0.75}; floor-edge counts (n in {22,23,26,49,50}); omission listed twice per ordering; option keys spelled Ratio / Min / Max / Ordering / RandomSeed.",
	"C16": " ADDED: start states [reversal(ratio 1), X] for X in {fatigue, anchoring, omission, concealment, reversal}; two never-considered alternatives beyond both ends; empty choseToMake; floor-edge counts on 22..50 criteria; earlier reversal reports must not change.",
	"C17": " ADDED: start states [fatigue, X]; two never-considered alternatives beyond both ends; c1 in thirds and c3 at the 1e-9 scale; key effectiveFatigueRatio must be present; earlier fatigue reports must not change.",
	"C18": " ADDED: start states [own bias, X]; two never-considered alternatives beyond both ends; single-valued / all-zero reference criteria; thresholds added for the new criterion (one per step, method's direction, fractions of the reference's); parameters after the addition extend the previous ones.",
	"C19": " ADDED: start states [anchoring, X]; two never-considered alternatives beyond both ends; c3 at the 1e-9 scale; earlier anchoring reports must not change.",
	"C20": " ADDED: out-of-range ratio x 7 shapes of min / max / ordering for both splitting biases; rejected requests of 50 and 130 alternatives; valid corpus as in C02.",
}

func init() {
	for id, extra := range ruleAddenda {
		if p := Registry[id]; p != nil {
			p.Rule += extra
		}
	}
}
