package props

import (
	"crypto/sha256"
	"encoding/hex"
	"fmt"
	"strings"

	. "rdmverif/engine"
	"rdmverif/svc"
)

// Corpus Σ shared by C02, C09, C10, C20: small-scope valid requests for every method x bias configuration, heuristic
// currentChoice variants, and one rejected request per documented validation rule.

type CorpusReq struct {
	Name  string
	Req   M
	Valid bool
	Rule  string // for invalid ones: which documented constraint is violated
}

func withMP(req M, kv M) M {
	r := M{}
	for k, v := range req {
		r[k] = v
	}
	mp := M{}
	for k, v := range asM(req["methodParameters"]) {
		mp[k] = v
	}
	for k, v := range kv {
		mp[k] = v
	}
	r["methodParameters"] = mp
	return r
}

func validCorpus(level int) []CorpusReq {
	var out []CorpusReq
	alpha := biasAlphabet(level)
	for _, m := range allMethods {
		for _, sub := range []bool{false, true} {
			root := rootRequest(m, sub, false)
			name := fmt.Sprintf("%s/subset=%v", m, sub)
			out = append(out, CorpusReq{Name: name + "/no-bias", Req: root, Valid: true})
			for i, b := range alpha {
				if sub && level < 2 && i%2 == 1 {
					continue
				}
				out = append(out, CorpusReq{Name: fmt.Sprintf("%s/%s#%d", name, biasLabel(b), i), Req: withBiases(root, []M{b}), Valid: true})
			}
			// heuristics: currentChoice inside / outside choseToMake, random order
			if m == "majorityHeuristic" || m == "satisfactionHeuristic" {
				for _, cc := range []string{"a", "c"} {
					for _, rnd := range []bool{false, true} {
						r := withMP(root, M{"currentChoice": cc, "randomAlternativesOrdering": rnd, "randomSeed": 3})
						out = append(out, CorpusReq{Name: fmt.Sprintf("%s/currentChoice=%s/random=%v", name, cc, rnd), Req: r, Valid: true})
						core := biasAlphabet(0)
						for _, bi := range []int{1, 2, 7} {
							out = append(out, CorpusReq{Name: fmt.Sprintf("%s/currentChoice=%s/random=%v/%s", name, cc, rnd, biasLabel(core[bi])), Req: withBiases(r, []M{core[bi]}), Valid: true})
						}
					}
				}
			}
			if m == "aspectEliminationHeuristic" {
				r := withMP(root, M{"randomAlternativesOrdering": true, "randomSeed": 3, "function": "idealAdditiveCoefficient", "params": M{"coefficient": 0.25, "minValue": 0.0, "maxValue": 1.0}})
				out = append(out, CorpusReq{Name: name + "/ideal-additive/random", Req: r, Valid: true})
			}
			// two biases in a row (fatigue then reversal: the report-aliasing shape) and a three-bias chain
			core := biasAlphabet(0)
			out = append(out, CorpusReq{Name: name + "/fatigue>reversal", Req: withBiases(root, []M{core[2], core[10]}), Valid: true})
			out = append(out, CorpusReq{Name: name + "/anchoring>fatigue>omission", Req: withBiases(root, []M{core[7], core[3], core[0]}), Valid: true})
			out = append(out, CorpusReq{Name: name + "/concealment>mixing>reversal", Req: withBiases(root, []M{core[4], core[6], core[1]}), Valid: true})
		}
		// near-tie variant: two criterion values of one alternative differ by 4e-6 (inside Choquet's 1e-5 grouping, outside
		// the 1e-8 rounding), so an order-of-iteration dependence in the grouping shows in the reported value
		near := set(rootRequest(m, true, false), M{"c1": 2.5, "c2": 1.0, "c3": 2.500004}, "knownAlternatives", 0, "criteria")
		out = append(out, CorpusReq{Name: m + "/near-tie/no-bias", Req: near, Valid: true})
		out = append(out, CorpusReq{Name: m + "/near-tie/fatigue", Req: withBiases(near, []M{biasAlphabet(0)[2]}), Valid: true})
		// tie variant: all three criteria equally important under every documented importance (equal weights,
		// equal column sums), so that any order-of-iteration dependence in rankings becomes visible
		tie := tieRequest(m)
		for i, b := range biasAlphabet(0) {
			out = append(out, CorpusReq{Name: fmt.Sprintf("%s/ties/%s#%d", m, biasLabel(b), i), Req: withBiases(tie, []M{b}), Valid: true})
		}
	}
	return out
}

func bodyHash(b []byte) string {
	h := sha256.Sum256(b)
	return hex.EncodeToString(h[:8])
}

// Fingerprint of the process-wide shared state: every package-level variable of the service file and of every lib
// package (generated root list), walked reflectively.
func Fingerprint() string {
	roots := M{}
	for k, v := range svc.GlobalRoots() {
		roots["svc."+k] = v
	}
	for k, v := range svc.LibGlobalRoots() {
		roots[k] = v
	}
	h := sha256.Sum256([]byte(Dump(roots)))
	return hex.EncodeToString(h[:12])
}

// tieRequest: six criteria that tie pairwise in weight and in summed considered values.
func tieRequest(method string) M {
	cids := critIDs(6)
	var crits L
	for _, id := range cids {
		crits = append(crits, crit(id, "gain"))
	}
	vals := map[string][]float64{"a": {1, 2, 3, 1, 2, 3}, "b": {3, 2, 1, 3, 2, 1}, "c": {2, 2, 2, 2, 2, 2}}
	var ka L
	for _, id := range []string{"a", "b", "c"} {
		cv := map[string]float64{}
		for j, c := range cids {
			cv[c] = vals[id][j]
		}
		ka = append(ka, alt(id, cv))
	}
	w := map[string]float64{}
	for _, c := range cids {
		w[c] = 2
	}
	var mp M
	if method == "choquetIntegral" {
		caps := M{}
		for _, sub := range subsetsOf(cids) {
			caps[strings.Join(sub, ",")] = float64(len(sub)) / 8
		}
		mp = M{"weights": caps}
	} else {
		mp = methodParams(method, cids, w, false)
	}
	return M{"preferenceFunction": method, "knownAlternatives": ka, "choseToMake": L{"a", "b"}, "criteria": crits, "methodParameters": mp, "biasApplyRandomSeed": 1}
}
