package props

import (
	"crypto/sha256"
	"encoding/hex"
	"fmt"
	"strings"

	. "rdmverif/engine"
	"rdmverif/svc"
)

// Corpus Σ shared by C02, C09, C10, C20: small-scope valid requests for every method x bias configuration, heuristic
// currentChoice variants, and one rejected request per documented validation rule.

type CorpusReq struct {
	Name   string
	Req    M
	Valid  bool
	Rule   string // for invalid ones: which documented constraint is violated
	Always bool   // member of every pair/history sub-corpus (optional-field variants)
}

// defaultsCorpus: for every optional field of a bias or method, one request that sets it to a non-default value and one
// that leaves it out (relying on the documented default). A value that leaks from one request (or one application) into
// a later one that omits the field shows up as history dependence between these.
func defaultsCorpus() []CorpusReq {
	var out []CorpusReq
	add := func(name string, req M) {
		out = append(out, CorpusReq{Name: "defaults/" + name, Req: req, Valid: true, Always: true})
	}
	ws := rootRequest("weightedSum", true, false)
	b := func(name string, props M) M { return withBiases(ws, []M{{"name": name, "props": props}}) }
	add("omission/min2", b("criteriaOmission", M{"ratio": 0.5, "min": 2}))
	add("omission/ratio-only", b("criteriaOmission", M{"ratio": 0.5}))
	add("omission/max0", b("criteriaOmission", M{"ratio": 0.5, "max": 0}))
	add("omission/all-defaults", b("criteriaOmission", M{}))
	add("omission/strongest", b("criteriaOmission", M{"ratio": 0.34, "ordering": "strongest"}))
	add("reversal/max1-ratio1", b("preferenceReversal", M{"ratio": 1.0, "max": 1}))
	add("reversal/ratio1", b("preferenceReversal", M{"ratio": 1.0}))
	add("reversal/min1", b("preferenceReversal", M{"min": 1}))
	add("concealment/all-defaults", b("criteriaConcealment", M{}))
	add("concealment/importance1-scaling2-bounded", b("criteriaConcealment", M{"newCriterionImportance": 1.0, "newCriterionScaling": 2.0, "allowedValuesRangeScaling": 0.5, "disallowNegativeValues": true, "randomSeed": 8}))
	add("concealment/randomUniform-seed-omitted", b("criteriaConcealment", M{"referenceCriterionType": "randomUniform"}))
	add("concealment/randomUniform-seed9", b("criteriaConcealment", M{"referenceCriterionType": "randomUniform", "newCriterionRandomSeed": 9}))
	add("concealment/randomWeighted-seed-omitted", b("criteriaConcealment", M{"referenceCriterionType": "randomWeighted"}))
	add("mixing/all-defaults", b("criteriaMixing", M{}))
	add("mixing/ratio025-randomWeighted-seed4", b("criteriaMixing", M{"mixingRatio": 0.25, "referenceCriterionType": "randomWeighted", "newCriterionRandomSeed": 4, "randomSeed": 2}))
	add("mixing/importance1", b("criteriaMixing", M{"newCriterionImportance": 1.0}))
	add("fatigue/seed-omitted", b("fatigue", M{"function": "const", "params": M{"value": 0.25}}))
	add("fatigue/seed5-bounded", b("fatigue", M{"function": "const", "params": M{"value": 0.25}, "randomSeed": 5, "allowedValuesRangeScaling": 0.5, "disallowNegativeValues": true}))
	add("fatigue/exp-params-partial", b("fatigue", M{"function": "expFromZero", "params": M{"alpha": 0.5, "multiplier": 2.0, "queryNumber": 1}}))
	add("fatigue/exp-multiplier-omitted", b("fatigue", M{"function": "expFromZero", "params": M{"alpha": 0.5, "queryNumber": 1}}))
	an := func(applier M, coefOmitted bool) M {
		aa := L{M{"alternative": "a", "coefficient": 2.0}, M{"alternative": "b", "coefficient": 1.0}}
		if coefOmitted {
			aa = L{M{"alternative": "a"}, M{"alternative": "b"}}
		}
		return b("anchoring", M{"anchoringAlternatives": aa, "referencePoints": M{"function": "ideal"},
			"gain": M{"function": "linear", "params": M{"a": 0.5, "b": 0.0}}, "loss": M{"function": "linear", "params": M{"a": 1.0}}, "applier": applier})
	}
	add("anchoring/inline-flag-true", an(M{"function": "inline", "params": M{"applyOnNotConsidered": true}}, false))
	add("anchoring/inline-flag-omitted", an(M{"function": "inline", "params": M{}}, false))
	add("anchoring/inline-bounded-coefficients-omitted", an(M{"function": "inline", "params": M{"allowedValuesRangeScaling": 1.0, "disallowNegativeValues": true}}, true))
	add("anchoring/newCriterion-defaults", an(M{"function": "newCriterion", "params": M{}}, false))
	add("anchoring/newCriterion-importance1-seed3", an(M{"function": "newCriterion", "params": M{"newCriterionImportance": 1.0, "randomSeed": 3}}, false))
	mj := rootRequest("majorityHeuristic", true, false)
	tie := tieRequest("majorityHeuristic")
	for _, pol := range []string{"", "allow", "current", "newer", "random"} {
		kv := M{"drawResolution": pol}
		if pol == "" {
			kv = M{}
		}
		r := withMP(tie, kv)
		if pol == "" {
			delete(asM(r["methodParameters"]), "drawResolution")
		}
		add("majority-ties/draw="+pol, r)
	}
	add("majority/random-order-seed-omitted", withMP(mj, M{"randomAlternativesOrdering": true}))
	add("majority/random-order-seed7-current-a", withMP(mj, M{"randomAlternativesOrdering": true, "randomSeed": 7, "currentChoice": "a"}))
	ae := rootRequest("aspectEliminationHeuristic", true, false)
	add("aspect/additive-min-omitted", withMP(ae, M{"function": "idealAdditiveCoefficient", "params": M{"coefficient": 0.25, "maxValue": 1.0}}))
	add("aspect/additive-min05", withMP(ae, M{"function": "idealAdditiveCoefficient", "params": M{"coefficient": 0.25, "minValue": 0.5, "maxValue": 1.0}}))
	add("aspect/multiplied-min025-max075", withMP(ae, M{"function": "idealMultipliedCoefficient", "params": M{"coefficient": 0.5, "minValue": 0.25, "maxValue": 0.75}}))
	// two considered alternatives tied at the best value on every criterion, series running up to maxValue 1: the walk
	// must still end (an iterator that never stops would spin for ever here)
	tied := set(set(ae, M{"c1": 3.0, "c2": 1.0, "c3": 2.5}, "knownAlternatives", 0, "criteria"), M{"c1": 3.0, "c2": 1.0, "c3": 2.5}, "knownAlternatives", 2, "criteria")
	add("aspect/additive-max1-tied-best", withMP(tied, M{"function": "idealAdditiveCoefficient", "params": M{"coefficient": 0.25, "minValue": 0.0, "maxValue": 1.0}}))
	add("aspect/multiplied-max1-tied-best", withMP(tied, M{"function": "idealMultipliedCoefficient", "params": M{"coefficient": 0.5, "minValue": 0.0, "maxValue": 1.0}}))
	sa := rootRequest("satisfactionHeuristic", true, false)
	add("satisfaction/subtractive", withMP(sa, M{"function": "idealSubtractiveCoefficient", "params": M{"coefficient": 0.25, "minValue": 0.25, "maxValue": 1.0}}))
	add("satisfaction/multiplied", withMP(sa, M{"function": "idealMultipliedCoefficient", "params": M{"coefficient": 0.5, "minValue": 0.125, "maxValue": 0.75}}))
	el := rootRequest("electreIII", true, false)
	add("electre/distillation-omitted", el)
	add("electre/distillation-explicit", withMP(el, M{"electreDistillation": M{"a": -0.125, "b": 0.25}}))
	add("electre/distillation-b-only", withMP(el, M{"electreDistillation": M{"b": 0.125}}))
	core := biasAlphabet(0)
	for _, m := range allMethods {
		for name, r := range map[string]M{"odd-ids": oddIdsRequest(m), "5x6": bigRequest(m)} {
			add(m+"/"+name+"/no-bias", r)
			add(m+"/"+name+"/omission>concealment>reversal", withBiases(r, []M{core[0], core[4], core[1]}))
			add(m+"/"+name+"/anchoring-newCriterion>mixing>fatigue", withBiases(r, []M{core[8], core[6], core[3]}))
		}
	}
	for _, m := range []string{"electreIII", "majorityHeuristic", "satisfactionHeuristic", "weightedSum"} {
		r := rootRequest(m, false, false)
		add(m+"/alternative-named-twice-in-choseToMake", set(r, L{"c", "a", "c", "b"}, "choseToMake"))
		add(m+"/alternative-named-twice-in-choseToMake/fatigue", withBiases(set(r, L{"c", "a", "c", "b"}, "choseToMake"), []M{core[2]}))
	}
	for _, m := range []string{"weightedSum", "electreIII", "majorityHeuristic", "aspectEliminationHeuristic", "satisfactionHeuristic"} {
		r := rootRequest(m, true, false)
		for _, c := range asL(r["criteria"]) {
			if asS(asM(c)["type"]) == "gain" {
				delete(asM(c), "type")
			}
		}
		add(m+"/types-omitted", r)
		add(m+"/types-omitted/concealment", withBiases(r, []M{core[4]}))
	}
	for _, m := range allMethods {
		add(m+"/fractional-probabilities", withBiases(set(rootRequest(m, true, false), 11, "biasApplyRandomSeed"), []M{
			{"name": "fatigue", "applyProbability": 0.5, "props": M{"function": "const", "params": M{"value": 0.25}, "randomSeed": 2}},
			{"name": "preferenceReversal", "applyProbability": 0.5, "props": M{"ratio": 0.5}},
			{"name": "criteriaOmission", "applyProbability": 0.5, "props": M{"ratio": 0.34}}}))
	}
	{
		// anchoring as a new criterion over five criteria whose reference criterion's range straddles zero (float sums of
		// importance-weighted terms: their order of summation must not be left to a map)
		r := bigRequest("weightedSum")
		for i, a := range asL(r["knownAlternatives"]) {
			cm := asM(asM(a)["criteria"])
			cm["c1"] = asF(cm["c1"])*0.37 - 0.61*float64(i%3)
			cm["c3"] = asF(cm["c3"]) * 0.113
		}
		add("weightedSum/5x6-signed/anchoring-newCriterion", withBiases(r, []M{anchoringBias(2, false, true)}))
		add("weightedSum/5x6-signed/anchoring-newCriterion-nadir", withBiases(r, []M{anchoringBias(2, true, false)}))
	}
	for _, m := range []string{"aspectEliminationHeuristic", "satisfactionHeuristic"} {
		fn, p := "idealAdditiveCoefficient", M{"coefficient": 0.25, "minValue": 0.0, "maxValue": 1.0}
		if m == "satisfactionHeuristic" {
			fn, p = "idealSubtractiveCoefficient", M{"coefficient": 0.25, "minValue": 0.25, "maxValue": 1.0}
		}
		r := withMP(rootRequest(m, true, false), M{"function": fn, "params": p})
		for _, bi := range []int{0, 4, 6, 8} {
			add(fmt.Sprintf("%s/%s/%s", m, fn, biasLabel(core[bi])), withBiases(r, []M{core[bi]}))
		}
		r2 := withMP(rootRequest(m, true, false), M{"function": "idealMultipliedCoefficient", "params": M{"coefficient": 0.5, "minValue": 0.25, "maxValue": 1.0}})
		for _, bi := range []int{0, 4} {
			add(fmt.Sprintf("%s/idealMultipliedCoefficient/%s", m, biasLabel(core[bi])), withBiases(r2, []M{core[bi]}))
		}
	}
	add("seeds/negative-and-beyond-32-bits", withBiases(set(ws, -7, "biasApplyRandomSeed"), []M{
		{"name": "fatigue", "applyProbability": 0.5, "props": M{"function": "const", "params": M{"value": 0.25}, "randomSeed": 1099511627776}},
		{"name": "criteriaOmission", "applyProbability": 0.5, "props": M{"ratio": 0.5, "ordering": "random", "randomSeed": -3}},
		{"name": "criteriaConcealment", "props": M{"referenceCriterionType": "randomWeighted", "newCriterionRandomSeed": -1, "randomSeed": 9007199254740993}}}))
	add("magnitudes/1e-9-and-1e12", set(set(ws, M{"c1": 1e-9, "c2": 1e12, "c3": -0.0}, "knownAlternatives", 0, "criteria"), M{"c1": 1e12, "c2": 1e-9, "c3": 4e-324}, "knownAlternatives", 1, "criteria"))
	// declared value ranges that do not start at 0 (a range object rewritten in place would show)
	for _, m := range []string{"weightedSum", "owa", "majorityHeuristic"} {
		r := rootRequest(m, true, true)
		for _, c := range asL(r["criteria"]) {
			asM(c)["valuesRange"] = M{"min": 0.25, "max": 5.5}
		}
		add(m+"/ranges-0.25-5.5/mixing", withBiases(r, []M{{"name": "criteriaMixing", "props": M{"randomSeed": 7}}}))
		add(m+"/ranges-0.25-5.5/concealment>mixing", withBiases(r, []M{{"name": "criteriaConcealment", "props": M{"randomSeed": 3}}, {"name": "criteriaMixing", "props": M{"randomSeed": 7}}}))
		add(m+"/ranges-0.25-5.5/reversal", withBiases(r, []M{{"name": "preferenceReversal", "props": M{"ratio": 0.5}}}))
	}
	return out
}

func withMP(req M, kv M) M {
	r := M{}
	for k, v := range req {
		r[k] = v
	}
	mp := M{}
	for k, v := range asM(req["methodParameters"]) {
		mp[k] = v
	}
	for k, v := range kv {
		mp[k] = v
	}
	r["methodParameters"] = mp
	return r
}

// twinCorpus: for every method a request of exactly the shape of the root request (same ids, same sizes, same options)
// but with the alternatives' values rotated and other weights, alone and under a criterion-adding + omission chain, plus a
// shorter request (two criteria, two alternatives) with the same ids. Anything remembered per id / per shape from an
// earlier request (a memo table, a pooled buffer, a lazily built lookup) shows as history dependence between the root
// request, its twin and the shorter one.
func twinCorpus() []CorpusReq {
	var out []CorpusReq
	core := biasAlphabet(0)
	for _, m := range allMethods {
		root := rootRequest(m, false, false)
		twin := asM(deepCopy(root))
		ka := asL(twin["knownAlternatives"])
		first := asM(ka[0])["criteria"]
		for i := 0; i+1 < len(ka); i++ {
			asM(ka[i])["criteria"] = asM(ka[i+1])["criteria"]
		}
		asM(ka[len(ka)-1])["criteria"] = first
		mp := methodParams(m, critIDs(3), map[string]float64{"c1": 3, "c2": 1, "c3": 2}, false)
		for k, v := range asM(root["methodParameters"]) {
			if _, has := mp[k]; !has {
				mp[k] = v
			}
		}
		twin["methodParameters"] = mp
		out = append(out, CorpusReq{Name: "twin/" + m + "/no-bias", Req: M(twin), Valid: true, Always: true})
		out = append(out, CorpusReq{Name: "twin/" + m + "/concealment>omission", Req: withBiases(M(twin), []M{core[4], core[0]}), Valid: true, Always: true})
		short := M{"preferenceFunction": m, "biasApplyRandomSeed": 1, "choseToMake": L{"b", "a"},
			"criteria":          L{asL(root["criteria"])[0], asL(root["criteria"])[2]},
			"knownAlternatives": L{alt("a", map[string]float64{"c1": 2, "c3": 1}), alt("b", map[string]float64{"c1": 1, "c3": 2})},
			"methodParameters":  methodParams(m, []string{"c1", "c3"}, map[string]float64{"c1": 1, "c3": 2}, false)}
		out = append(out, CorpusReq{Name: "twin/" + m + "/shorter", Req: short, Valid: true, Always: true})
	}
	// the same activation seed with lists of one, two and three entries whose probabilities are fractional: whatever is
	// remembered per seed from a shorter list shows when a longer one follows (and the other way round)
	ws := rootRequest("weightedSum", true, false)
	var bs []M
	for n := 1; n <= 3; n++ {
		b := bias("fatigue", M{"function": "const", "params": M{"value": 0.125}, "randomSeed": int64(n)})
		b["applyProbability"] = 0.5
		bs = append(bs, b)
		r := withBiases(ws, append([]M{}, bs...))
		r["biasApplyRandomSeed"] = 77
		out = append(out, CorpusReq{Name: fmt.Sprintf("activation/seed77/len%d", n), Req: r, Valid: true, Always: true})
	}
	// seeded random search order where the order decides the ranking (everybody is accepted at the first level / every
	// comparison is a draw): the same seed twice must give the same order twice
	five := L{}
	for i, id := range []string{"a", "b", "c", "d", "e"} {
		five = append(five, alt(id, map[string]float64{"c1": 1 + float64(i%2), "c2": 2, "c3": 3 - float64(i%2)}))
	}
	for _, m := range []string{"satisfactionHeuristic", "majorityHeuristic", "aspectEliminationHeuristic"} {
		r := rootRequest(m, false, false)
		r["knownAlternatives"] = five
		r["choseToMake"] = L{"a", "b", "c", "d", "e"}
		r = withMP(r, M{"randomAlternativesOrdering": true, "randomSeed": 11})
		if m == "satisfactionHeuristic" {
			r = withMP(r, M{"function": "thresholds", "params": M{"thresholds": L{M{"c1": 0.5, "c2": 9.0, "c3": 0.5}}}})
		}
		if m == "majorityHeuristic" {
			r = withMP(r, M{"weights": M{"c1": 1.0, "c2": 1.0, "c3": 1.0}, "drawResolution": "current"})
		}
		out = append(out, CorpusReq{Name: "random-order/" + m, Req: r, Valid: true, Always: true})
	}
	// degenerate but valid data: a criterion with one value for every known alternative, a criterion that is 0 everywhere,
	// all weights 0 — with every bias that rescales or averages
	for _, m := range []string{"weightedSum", "majorityHeuristic", "electreIII", "satisfactionHeuristic"} {
		for zi, zero := range []bool{false, true} {
			root := degenerateVariant(rootRequest(m, true, false), zero)
			for _, bi := range []int{4, 5, 6, 7, 8, 1, 2} {
				b := biasAlphabet(0)[bi]
				out = append(out, CorpusReq{Name: fmt.Sprintf("degenerate/%s/zero=%v/%s#%d", m, zero, biasLabel(b), bi), Req: withBiases(root, []M{b}), Valid: true, Always: zi == 0 && (bi == 6 || bi == 8)})
			}
		}
	}
	for _, m := range []string{"weightedSum", "majorityHeuristic", "aspectEliminationHeuristic"} {
		root := rootRequest(m, true, false)
		for k := range asM(asM(root["methodParameters"])["weights"]) {
			asM(asM(root["methodParameters"])["weights"])[k] = 0.0
		}
		for _, bi := range []int{8, 11, 4, 6, 0} {
			b := biasAlphabet(0)[bi]
			out = append(out, CorpusReq{Name: fmt.Sprintf("zero-weights/%s/%s#%d", m, biasLabel(b), bi), Req: withBiases(root, []M{b}), Valid: true})
		}
	}
	// ELECTRE III with decimal weights whose float sum depends on the order of addition (0.3+0.2+0.35+0.15), and pairs
	// whose credibilities sit exactly on the outranking line of the default distillation function (1 against 0.85:
	// 1 > 0.85 + 0.3 - 0.15*1 is decided in the last bit) — any order-of-iteration dependence in the arithmetic shows
	for vi, wts := range [][]float64{{0.3, 0.2, 0.35, 0.15}, {0.15, 0.35, 0.2, 0.3}, {0.1, 0.2, 0.3, 0.25}} {
		cids := critIDs(4)
		last := cids[3]
		if vi == 1 {
			last = cids[0]
		}
		mkv := func(base float64, drop bool) []float64 {
			v := []float64{base, base, base, base}
			if drop {
				for j, c := range cids {
					if c == last {
						v[j] = base - 5
					}
				}
			}
			return v
		}
		r := genericRequest("electreIII", cids, -1, []string{"a", "b", "c", "d"}, [][]float64{mkv(10, false), mkv(10, true), mkv(10, false), mkv(4, true)}, []string{"d", "b", "a", "c"}, wts)
		out = append(out, CorpusReq{Name: fmt.Sprintf("electre/on-the-cut-%d", vi), Req: r, Valid: true, Always: true})
		out = append(out, CorpusReq{Name: fmt.Sprintf("electre/on-the-cut-%d/omission", vi), Req: withBiases(r, []M{biasAlphabet(0)[0]}), Valid: true, Always: vi == 0})
	}
	// the activation seed left out / given as 0 with fractional probabilities (whatever a missing seed defaults to, it is
	// a function of the request), and requests with 50 known alternatives under every bias that looks at all of them
	for _, seedForm := range []string{"omitted", "zero"} {
		r := withBiases(rootRequest("weightedSum", true, false), []M{
			{"name": "criteriaOmission", "applyProbability": 0.5, "props": M{"ratio": 0.34}},
			{"name": "fatigue", "applyProbability": 0.5, "props": M{"function": "const", "params": M{"value": 0.25}, "randomSeed": 2}},
			{"name": "preferenceReversal", "applyProbability": 0.9, "props": M{"ratio": 0.34}}})
		delete(r, "biasApplyRandomSeed")
		if seedForm == "zero" {
			r["biasApplyRandomSeed"] = 0
		}
		out = append(out, CorpusReq{Name: "activation/seed-" + seedForm, Req: r, Valid: true, Always: true})
	}
	{
		n := 50
		ids := make([]string, n)
		vals := make([][]float64, n)
		for i := range ids {
			ids[i] = fmt.Sprintf("k%02d", i)
			vals[i] = []float64{float64(i%7) + 1, float64((i*3)%5) + 1, float64((i*5)%11) + 1}
		}
		big := genericRequest("weightedSum", critIDs(3), 1, ids, vals, []string{"k07", "k03", "k41", "k20", "k11"}, []float64{1, 2, 3})
		big["biasApplyRandomSeed"] = 1
		anch := func(ap M) M {
			return bias("anchoring", M{"anchoringAlternatives": L{M{"alternative": "k03", "coefficient": 1.0}, M{"alternative": "k41", "coefficient": 0.5}},
				"referencePoints": M{"function": "ideal"}, "gain": M{"function": "linear", "params": M{"a": 0.5, "b": 0.0}}, "loss": M{"function": "linear", "params": M{"a": 1.0, "b": 0.0}}, "applier": ap})
		}
		out = append(out, CorpusReq{Name: "fifty-known/anchoring-inline-all", Req: withBiases(big, []M{anch(M{"function": "inline", "params": M{"applyOnNotConsidered": true}})}), Valid: true, Always: true})
		out = append(out, CorpusReq{Name: "fifty-known/anchoring-newCriterion", Req: withBiases(big, []M{anch(M{"function": "newCriterion", "params": M{"randomSeed": 6}})}), Valid: true})
		core50 := biasAlphabet(0)
		out = append(out, CorpusReq{Name: "fifty-known/fatigue", Req: withBiases(big, []M{core50[2]}), Valid: true})
		out = append(out, CorpusReq{Name: "fifty-known/concealment>reversal", Req: withBiases(big, []M{core50[4], core50[1]}), Valid: true})
	}
	// one bias kind applied twice in one request with the same seed (second generated id, second stream)
	core0 := biasAlphabet(0)
	for _, m := range []string{"weightedSum", "satisfactionHeuristic"} {
		root := rootRequest(m, true, false)
		out = append(out, CorpusReq{Name: "twice/" + m + "/concealment>concealment", Req: withBiases(root, []M{core0[4], core0[4]}), Valid: true, Always: true})
		out = append(out, CorpusReq{Name: "twice/" + m + "/mixing>mixing", Req: withBiases(root, []M{core0[6], core0[6]}), Valid: true, Always: true})
	}
	return out
}

func validCorpus(level int) []CorpusReq {
	out := append(defaultsCorpus(), twinCorpus()...)
	alpha := biasAlphabet(level)
	for _, m := range allMethods {
		for _, sub := range []bool{false, true} {
			root := rootRequest(m, sub, false)
			name := fmt.Sprintf("%s/subset=%v", m, sub)
			out = append(out, CorpusReq{Name: name + "/no-bias", Req: root, Valid: true})
			for i, b := range alpha {
				if sub && level < 2 && i%2 == 1 {
					continue
				}
				out = append(out, CorpusReq{Name: fmt.Sprintf("%s/%s#%d", name, biasLabel(b), i), Req: withBiases(root, []M{b}), Valid: true})
			}
			// heuristics: currentChoice inside / outside choseToMake, random order
			if m == "majorityHeuristic" || m == "satisfactionHeuristic" {
				for _, cc := range []string{"a", "c"} {
					for _, rnd := range []bool{false, true} {
						r := withMP(root, M{"currentChoice": cc, "randomAlternativesOrdering": rnd, "randomSeed": 3})
						out = append(out, CorpusReq{Name: fmt.Sprintf("%s/currentChoice=%s/random=%v", name, cc, rnd), Req: r, Valid: true})
						core := biasAlphabet(0)
						for _, bi := range []int{1, 2, 7} {
							out = append(out, CorpusReq{Name: fmt.Sprintf("%s/currentChoice=%s/random=%v/%s", name, cc, rnd, biasLabel(core[bi])), Req: withBiases(r, []M{core[bi]}), Valid: true})
						}
					}
				}
			}
			if m == "aspectEliminationHeuristic" {
				r := withMP(root, M{"randomAlternativesOrdering": true, "randomSeed": 3, "function": "idealAdditiveCoefficient", "params": M{"coefficient": 0.25, "minValue": 0.0, "maxValue": 1.0}})
				out = append(out, CorpusReq{Name: name + "/ideal-additive/random", Req: r, Valid: true})
			}
			// two biases in a row (fatigue then reversal: the report-aliasing shape) and a three-bias chain
			core := biasAlphabet(0)
			out = append(out, CorpusReq{Name: name + "/fatigue>reversal", Req: withBiases(root, []M{core[2], core[10]}), Valid: true})
			out = append(out, CorpusReq{Name: name + "/anchoring>fatigue>omission", Req: withBiases(root, []M{core[7], core[3], core[0]}), Valid: true})
			out = append(out, CorpusReq{Name: name + "/concealment>mixing>reversal", Req: withBiases(root, []M{core[4], core[6], core[1]}), Valid: true})
		}
		// near-tie variant: two criterion values of one alternative differ by 4e-6 (inside Choquet's 1e-5 grouping, outside
		// the 1e-8 rounding), so an order-of-iteration dependence in the grouping shows in the reported value
		near := set(rootRequest(m, true, false), M{"c1": 2.5, "c2": 1.0, "c3": 2.500004}, "knownAlternatives", 0, "criteria")
		out = append(out, CorpusReq{Name: m + "/near-tie/no-bias", Req: near, Valid: true})
		out = append(out, CorpusReq{Name: m + "/near-tie/fatigue", Req: withBiases(near, []M{biasAlphabet(0)[2]}), Valid: true})
		// tie variant: all three criteria equally important under every documented importance (equal weights,
		// equal column sums), so that any order-of-iteration dependence in rankings becomes visible
		tie := tieRequest(m)
		for i, b := range biasAlphabet(0) {
			out = append(out, CorpusReq{Name: fmt.Sprintf("%s/ties/%s#%d", m, biasLabel(b), i), Req: withBiases(tie, []M{b}), Valid: true})
		}
	}
	return out
}

func bodyHash(b []byte) string {
	h := sha256.Sum256(b)
	return hex.EncodeToString(h[:8])
}

// Fingerprint of the process-wide shared state: every package-level variable of the service file and of every lib
// package (generated root list), walked reflectively.
func Fingerprint() string {
	roots := M{}
	for k, v := range svc.GlobalRoots() {
		roots["svc."+k] = v
	}
	for k, v := range svc.LibGlobalRoots() {
		roots[k] = v
	}
	h := sha256.Sum256([]byte(Dump(roots)))
	return hex.EncodeToString(h[:12])
}

// tieRequest: six criteria that tie pairwise in weight and in summed considered values.
func tieRequest(method string) M {
	cids := critIDs(6)
	var crits L
	for _, id := range cids {
		crits = append(crits, crit(id, "gain"))
	}
	vals := map[string][]float64{"a": {1, 2, 3, 1, 2, 3}, "b": {3, 2, 1, 3, 2, 1}, "c": {2, 2, 2, 2, 2, 2}}
	var ka L
	for _, id := range []string{"a", "b", "c"} {
		cv := map[string]float64{}
		for j, c := range cids {
			cv[c] = vals[id][j]
		}
		ka = append(ka, alt(id, cv))
	}
	w := map[string]float64{}
	for _, c := range cids {
		w[c] = 2
	}
	var mp M
	if method == "choquetIntegral" {
		caps := M{}
		for _, sub := range subsetsOf(cids) {
			caps[strings.Join(sub, ",")] = float64(len(sub)) / 8
		}
		mp = M{"weights": caps}
	} else {
		mp = methodParams(method, cids, w, false)
	}
	return M{"preferenceFunction": method, "knownAlternatives": ka, "choseToMake": L{"a", "b"}, "criteria": crits, "methodParameters": mp, "biasApplyRandomSeed": 1}
}
