package props

import (
	"fmt"
	"sort"

	"github.com/Azbesciak/RealDecisionMaker/lib/logic/preference-func/electreIII"
	"github.com/Azbesciak/RealDecisionMaker/lib/model"
	"github.com/Azbesciak/RealDecisionMaker/lib/utils"

	. "rdmverif/engine"
)

// C05 — ELECTRE III indices follow the method's definition (DESIGN.md 6.C05, A.3).

func init() {
	Register(&Property{
		ID: "C05", Level: "exploration",
		Rule: "E1, two drivers. (i) requests: n in 2..4 (thorough 5) alternatives x m in {1,2} criteria x values {0,1,2} full product; options (per-criterion threshold shape out of 7, gain/cost, weights k, " +
			"distillation function out of 5, extra not-considered alternative) within 2 deviations of the default; plus a three-criteria veto grid (n=2, values {0,1,2}^6, 4 threshold shapes per criterion full product x 6 weight vectors x 2 distillation functions). (ii) credibility matrices fed to the exported RankAscending/RankDescending: " +
			"all 3x3 matrices with off-diagonal entries in {0,0.25,0.5,0.75,1} (thorough: all 4x4 over {0,0.5,0.75,1}) x 4 distillation functions. " +
			"Oracle: independent set-based reference implementation of credibility + both distillations + the link rule. " +
			"distinct_nontrivial = distinct (instance, index vector) with >=2 classes in some distillation.",
		Assume: []string{"constant thresholds (a=0) only; threshold grids chosen so that partial concordance/discordance values are dyadic",
			"reference follows the textbook definition incl. 'lambda_{k+1} is searched inside the current distillation set'"},
		Run:   c05Run,
		Check: c05Check,
	})
}

func c05Check(c *Case) []Violation {
	if c.Kind == "matrix" {
		return c05CheckMatrix(c)
	}
	req := asM(roundTrip(c.Req))
	out := Decide(J(c.Req), nil)
	if !out.Accepted {
		return []Violation{viol(c, "C05/rejected", "valid ELECTRE III request rejected: %s", out.Err)}
	}
	resp, err := ParseResponse(out.Body)
	if err != nil {
		return []Violation{viol(c, "C05/unparsable", "%v", err)}
	}
	vals := map[string]map[string]float64{}
	for _, e := range resp.Result {
		vals[e.Alternative.ID] = e.Alternative.Criteria
	}
	listing := toStrings(req["choseToMake"])
	exp := refElectre(listing, vals, eleCritsFromReq(req), eleDistFromReq(req))
	if cur != nil {
		classes := map[int]bool{}
		for _, v := range exp.Asc {
			classes[v] = true
		}
		cur.Outcome(len(classes) >= 2, out.Body)
	}
	return eleCompare(c, "C05", resp, exp, listing)
}

func c05CheckMatrix(c *Case) []Violation {
	n := int(asF(c.Params["n"]))
	if v, ok := c.Params["n"].(int); ok {
		n = v
	}
	flat := toFloats(c.Params["sigma"])
	d := distFn{A: asF(c.Params["a"]), B: asF(c.Params["b"])}
	sigma := make([][]float64, n)
	rows := make([][]float64, n)
	k := 0
	for i := 0; i < n; i++ {
		sigma[i] = make([]float64, n)
		rows[i] = make([]float64, n)
		for j := 0; j < n; j++ {
			if i == j {
				rows[i][j] = 1
				continue
			}
			sigma[i][j] = flat[k]
			rows[i][j] = flat[k]
			k++
		}
	}
	ids := ids6[:n]
	alts := model.Alternatives(ids)
	var asc, desc []int
	failed := ""
	func() {
		defer func() {
			if e := recover(); e != nil {
				failed = fmt.Sprint(e)
			}
		}()
		am := &electreIII.AlternativesMatrix{Alternatives: &alts, Values: electreIII.NewMatrix(&rows)}
		fn := &utils.LinearFunctionParameters{A: d.A, B: d.B}
		asc = *electreIII.RankAscending(am, fn)
		am2 := &electreIII.AlternativesMatrix{Alternatives: &alts, Values: electreIII.NewMatrix(&rows)}
		desc = *electreIII.RankDescending(am2, fn)
	}()
	if failed != "" {
		return []Violation{viol(c, "C05/matrix-panic", "distillation failed: %s", failed)}
	}
	exp := refFromSigma(ids, sigma, d)
	var vs []Violation
	for i, id := range ids {
		if asc[i] != exp.Asc[id] {
			vs = append(vs, viol(c, "C05/matrix-ascending", "best-first distillation: got %v, reference %v", asc, exp.Asc))
			break
		}
	}
	for i, id := range ids {
		if desc[i] != exp.Desc[id] {
			vs = append(vs, viol(c, "C05/matrix-descending", "worst-first distillation: got %v, reference %v", desc, exp.Desc))
			break
		}
	}
	if cur != nil {
		classes := map[int]bool{}
		for _, v := range asc {
			classes[v] = true
		}
		cur.Outcome(len(classes) >= 2, "m", flat, d.A, d.B, asc, desc)
	}
	return vs
}

// eleEnumerate: request driver shared by C01/C05/C06.
func eleEnumerate(s *Shard, prop string, fn func(c *Case, cfg eleCfg)) {
	type grid struct{ n, m int }
	grids := []grid{{2, 1}, {3, 1}, {4, 1}, {2, 2}, {3, 2}, {4, 2}}
	if !quick(s) {
		grids = append(grids, grid{5, 1}, grid{5, 2})
	}
	ks := [][]float64{{1, 1}, {1, 3}, {3, 1}, {2, 1}}
	for _, g := range grids {
		dims := make([]int, g.n*g.m)
		for i := range dims {
			dims[i] = 3
		}
		// option menus: shape per criterion, type per criterion, k, dist, extra
		var menus []int
		for j := 0; j < g.m; j++ {
			menus = append(menus, len(eleShapes))
		}
		for j := 0; j < g.m; j++ {
			menus = append(menus, 2)
		}
		menus = append(menus, len(ks), len(eleDists), 2, 2)
		dev := 2
		if g.n*g.m >= 10 {
			dev = 1
		}
		var opts [][]int
		Deviations(menus, dev, func(idx []int) { opts = append(opts, append([]int{}, idx...)) })
		Product(dims, func(idx []int) {
			if !s.Take() {
				return
			}
			vals := make([][]float64, g.n)
			for i := range vals {
				vals[i] = make([]float64, g.m)
				for j := range vals[i] {
					vals[i][j] = float64(idx[i*g.m+j])
				}
			}
			for _, o := range opts {
				cfg := eleCfg{N: g.n, Vals: vals}
				for j := 0; j < g.m; j++ {
					cfg.Thr = append(cfg.Thr, eleShapes[o[j]])
					t := "gain"
					if o[g.m+j] == 1 {
						t = "cost"
					}
					cfg.Types = append(cfg.Types, t)
				}
				cfg.K = ks[o[2*g.m]][:g.m]
				cfg.Dist = eleDists[o[2*g.m+1]]
				cfg.Extra = o[2*g.m+2] == 1
				if o[2*g.m+3] == 1 {
					// considered alternatives listed in descending id order (choseToMake and knownAlternatives)
					cfg.Order = make([]int, g.n)
					for i := range cfg.Order {
						cfg.Order[i] = g.n - 1 - i
					}
				}
				fn(&Case{Prop: prop, Kind: "electre", Req: eleRequest(cfg)}, cfg)
				if g.n <= 3 && o[2*g.m+2] == 0 && o[2*g.m+3] == 0 {
					// the same with the type of every gain criterion left out (the documented default is gain)
					tc := cfg
					tc.Types = append([]string{}, cfg.Types...)
					any := false
					for j, t := range tc.Types {
						if t == "gain" {
							tc.Types[j] = ""
							any = true
						}
					}
					if any {
						fn(&Case{Prop: prop, Kind: "electre", Req: eleRequest(tc)}, tc)
					}
				}
			}
		})
	}
}

// eleVetoGrid: three criteria, two of which may veto with different partial discordances while the third keeps the
// concordance strictly between 0 and 1 (the shape needed to tell "discordance above the concordance" from variants of it).
func eleVetoGrid(s *Shard, prop string, fn func(c *Case, cfg eleCfg)) {
	shapes := []thr{{}, {P: 0.5, V: 1.5}, {P: 0.5, V: 2.5}, {Q: 0.5, P: 1.5}}
	ks := [][]float64{{1, 1, 1}, {1, 1, 2}, {2, 1, 1}, {1, 2, 1}, {2e6, 1, 1}, {1, 17, 3}} // the last two: a weight share below 1e-6; shares that land exactly on 1 - s(1) = 0.85
	ns := []int{2}
	if !quick(s) {
		ns = []int{2, 3}
	}
	for _, n := range ns {
		dims := make([]int, n*3)
		for i := range dims {
			dims[i] = 3
		}
		Product(dims, func(idx []int) {
			if !s.Take() {
				return
			}
			vals := make([][]float64, n)
			for i := range vals {
				vals[i] = []float64{float64(idx[i*3]), float64(idx[i*3+1]), float64(idx[i*3+2])}
			}
			if n == 3 && (idx[0]+idx[4]+idx[8])%2 == 1 {
				return // n=3: half of the value grid
			}
			Product([]int{len(shapes), len(shapes), len(shapes), len(ks), 2}, func(o []int) {
				cfg := eleCfg{N: n, Vals: vals, Types: []string{"gain", "gain", "gain"}, Thr: []thr{shapes[o[0]], shapes[o[1]], shapes[o[2]]}, K: ks[o[3]], Dist: eleDists[o[4]*2]}
				fn(&Case{Prop: prop, Kind: "electre", Req: eleRequest(cfg)}, cfg)
			})
		})
	}
}

// eleHuge: values around 1e18 with thresholds of a few hundred (differences are exact, sums value+threshold are not).
func eleHuge(s *Shard, prop string, fn func(c *Case, cfg eleCfg)) {
	vals := []float64{1e18, 1e18 + 128, 1e18 + 256, 1e18 + 384, 1e18 + 512, 1e18 + 1024}
	for _, n := range []int{2, 3} {
		dims := make([]int, n)
		for i := range dims {
			dims[i] = len(vals)
		}
		Product(dims, func(idx []int) {
			if !s.Take() {
				return
			}
			for _, rev := range []bool{false, true} {
				v := make([][]float64, n)
				for i := range v {
					v[i] = []float64{vals[idx[i]], float64(i)}
					if rev {
						v[i][1] = float64(n - i)
					}
				}
				// thresholds that the float grid at 1e18 (step 128) rounds up, rounds down, or represents exactly
				for _, t := range []thr{{Q: 100, P: 200, V: 250}, {Q: 100, P: 200}, {P: 200, V: 1000}, {Q: 60, P: 70}, {Q: 128, P: 512, V: 1024}, {P: 256}} {
					for _, typ := range []string{"gain", "cost"} {
						for _, k := range [][]float64{{3, 1}, {1, 3}, {1, 1}} {
							cfg := eleCfg{N: n, Vals: v, Types: []string{typ, "gain"}, Thr: []thr{t, {}}, K: k, Dist: eleDists[0]}
							fn(&Case{Prop: prop, Kind: "electre", Req: eleRequest(cfg)}, cfg)
						}
					}
				}
			}
		})
	}
}

// eleNearCut: two alternatives that trade off two criteria (k = 1, p = 1): sigma(A,B) = 1 - y/2, sigma(B,A) = 1 - x/2.
// With the default distillation function A outranks B exactly when x > 1.15y + 0.3; x is placed a few 1e-10 .. 1e-8 on
// either side of that line (values with more than eight significant decimals), so that the strict comparison of the
// distillation is decided inside the ninth decimal of the credibilities. Same for the mirrored pair.
func eleNearCut(s *Shard, prop string, fn func(c *Case, cfg eleCfg)) {
	for _, y := range []float64{0.2, 0.1, 0.25, 0.1999999902, 1.0 / 3} {
		for _, d := range []float64{1e-10, 1e-9, 3e-9, 6e-9, 2e-8} {
			for _, sign := range []float64{-1, 1} {
				if !s.Take() {
					continue
				}
				x := 1.15*y + 0.3 + sign*d
				for _, swap := range []bool{false, true} {
					vals := [][]float64{{x, 0}, {0, y}}
					if swap {
						vals = [][]float64{{0, y}, {x, 0}}
					}
					for _, typ := range []string{"gain", "cost"} {
						v := vals
						if typ == "cost" {
							v = [][]float64{{-vals[0][0], vals[0][1]}, {-vals[1][0], vals[1][1]}}
						}
						cfg := eleCfg{N: 2, Vals: v, Types: []string{typ, "gain"}, Thr: []thr{{P: 1}, {P: 1}}, K: []float64{1, 1}, Dist: eleDists[0]}
						fn(&Case{Prop: prop, Kind: "electre", Req: eleRequest(cfg)}, cfg)
					}
				}
			}
		}
	}
}

// eleLayered: 5..15 alternatives in layers — `above` single alternatives, then a class of `twins` identical alternatives, then
// `below` alternatives (each a layer of its own, or all of them one more class of identical alternatives), on two criteria
// without thresholds; listed in a scrambled order.
func eleLayered(s *Shard, prop string, visit func(c *Case)) {
	for above := 0; above <= 2; above++ {
		for twins := 2; twins <= 3; twins++ {
			for below := 1; below <= 10; below++ {
				for _, flat := range []bool{false, true} {
					if !s.Take() {
						continue
					}
					n := above + twins + below
					mul := 7
					for n%mul == 0 {
						mul += 4 // 7, 11: one of them is coprime to every n <= 15
					}
					var ids []string
					var vals [][]float64
					level := float64(n + 2)
					add := func(k int, same bool) {
						for i := 0; i < k; i++ {
							ids = append(ids, fmt.Sprintf("l%02d", (len(ids)*mul)%n))
							vals = append(vals, []float64{level, level * 2})
							if !same {
								level--
							}
						}
						if same {
							level--
						}
					}
					add(above, false)
					add(twins, true)
					add(below, flat)
					// scrambled listing: ids were dealt out as (i*mul) mod n, list them in ascending id order
					order := make([]int, n)
					for i := range order {
						order[i] = i
					}
					sort.Slice(order, func(a, b int) bool { return ids[order[a]] < ids[order[b]] })
					li := make([]string, n)
					lv := make([][]float64, n)
					for i, o := range order {
						li[i], lv[i] = ids[o], vals[o]
					}
					req := genericRequest("electreIII", []string{"c1", "c2"}, -1, li, lv, li, []float64{1, 2})
					visit(&Case{Prop: prop, Kind: "electre", Req: req, Params: M{"layers": []int{above, twins, below}, "flat": flat}})
				}
			}
		}
	}
}

func c05Run(s *Shard) {
	cur = s
	sampled := 0
	eleLayered(s, "C05", func(c *Case) {
		s.Evals++
		s.Begin(c)
		s.Report(c05Check(c))
	})
	// requests with more alternatives than a machine word has bits (63..130), against the reference implementation
	for _, n := range []int{63, 65, 67, 130} {
		for shape := 0; shape < 3; shape++ {
			for _, pos := range [][]int{{0, 1, 2, 3, 4}, {n - 1, n - 2, n - 3, n - 4, n - 5}, {0, n - 1, 1, n - 2, n / 2}} {
				if !s.Take() {
					continue
				}
				req, _, _ := eleLarge(n, shape, pos, 0)
				c := &Case{Prop: "C05", Kind: "electre", Req: req}
				s.Evals++
				s.Begin(c)
				s.Report(c05Check(c))
			}
		}
	}
	eleNearCut(s, "C05", func(c *Case, cfg eleCfg) {
		s.Evals++
		s.Begin(c)
		s.Report(c05Check(c))
	})
	eleHuge(s, "C05", func(c *Case, cfg eleCfg) {
		s.Evals++
		s.Begin(c)
		s.Report(c05Check(c))
	})
	eleVetoGrid(s, "C05", func(c *Case, cfg eleCfg) {
		s.Evals++
		s.Begin(c)
		s.Report(c05Check(c))
	})
	eleEnumerate(s, "C05", func(c *Case, cfg eleCfg) {
		s.Evals++
		s.Begin(c)
		s.Report(c05Check(c))
		if sampled < 1 && cfg.N == 3 && cfg.Thr[0].V != 0 {
			s.Sample(M{"request": c.Req})
			sampled++
		}
	})
	// driver (ii)
	n, levels := 3, []float64{0, 0.25, 0.5, 0.75, 1}
	if !quick(s) {
		n, levels = 4, []float64{0, 0.5, 0.75, 1}
	}
	s.Bounds["matrix_n"] = n
	s.Bounds["matrix_levels"] = levels
	c05PairFamily(s)
	for _, nn := range []int{2, 3, n} {
		if nn == 3 && n == 3 {
			continue
		}
		lv := levels
		if nn < n {
			lv = []float64{0, 0.25, 0.5, 0.75, 1}
		}
		dims := make([]int, nn*(nn-1))
		for i := range dims {
			dims[i] = len(lv)
		}
		Product(dims, func(idx []int) {
			if !s.Take() {
				return
			}
			flat := make([]float64, len(idx))
			for i, k := range idx {
				flat[i] = lv[k]
			}
			for _, d := range eleDists[1:4] {
				c := &Case{Prop: "C05", Kind: "matrix", Params: M{"n": nn, "sigma": flat, "a": d.A, "b": d.B}}
				s.Evals++
				s.Begin(c)
				s.Report(c05CheckMatrix(c))
			}
			c := &Case{Prop: "C05", Kind: "matrix", Params: M{"n": nn, "sigma": flat, "a": 0.0, "b": 0.0}}
			s.Evals++
			s.Begin(c)
			s.Report(c05CheckMatrix(c))
		})
	}
}

// c05PairFamily: 4x4 credibility matrices built pair by pair — every unordered pair {i,j} is either mutually credible at one
// of six well separated levels (no outranking: a tie that survives the cut at that level), or one-sided at that level, or
// not credible at all — under a small constant distillation function, so that every level is a cut of its own. This is
// the family in which a tie of k alternatives survives k and more successive cuts before a lower cut breaks it.
func c05PairFamily(s *Shard) {
	lv := []float64{1, 0.85, 0.7, 0.55, 0.4, 0.25}
	kinds := 3 // level x {mutual, i over j, j over i}, or nothing
	if quick(s) {
		kinds = 2 // quick: {mutual, i over j}
	}
	opts := kinds*len(lv) + 1
	pairs := [][2]int{{0, 1}, {2, 3}, {0, 2}, {1, 3}, {1, 2}, {0, 3}}
	dims := []int{opts, opts, opts, opts, opts, opts}
	s.Bounds["pair_family"] = fmt.Sprintf("4x4, 6 pairs x (6 levels x %d kinds of {mutual, one-sided, other-sided} + none), >=5 distinct levels, s(x) in {0.05, 0.1-0.05x}", kinds)
	Product(dims, func(idx []int) {
		if !s.Take() {
			return
		}
		// at least four pairs at pairwise different levels, otherwise the instance is covered by the small-level grids
		used := map[int]bool{}
		for _, o := range idx {
			if o > 0 {
				used[(o-1)/kinds] = true
			}
		}
		if len(used) < 5 {
			return
		}
		var m [4][4]float64
		for p, o := range idx {
			if o == 0 {
				continue
			}
			l, kind := lv[(o-1)/kinds], (o-1)%kinds
			i, j := pairs[p][0], pairs[p][1]
			if kind == 0 || kind == 1 {
				m[i][j] = l
			}
			if kind == 0 || kind == 2 {
				m[j][i] = l
			}
			if kind == 0 {
				m[j][i] = l - 0.02 // near-equal, not equal
			}
		}
		var flat []float64
		for i := 0; i < 4; i++ {
			for j := 0; j < 4; j++ {
				if i != j {
					flat = append(flat, m[i][j])
				}
			}
		}
		for _, d := range []distFn{{A: 0, B: 0.05}, {A: -0.05, B: 0.1}} {
			c := &Case{Prop: "C05", Kind: "matrix", Params: M{"n": 4, "sigma": flat, "a": d.A, "b": d.B}}
			s.Evals++
			s.Begin(c)
			s.Report(c05CheckMatrix(c))
		}
	})
}

func init() {
	c01Extra = append(c01Extra, func(s *Shard, run func(c *Case)) {
		eleLayered(s, "C01", run)
		eleEnumerate(s, "C01", func(c *Case, cfg eleCfg) {
			if liteEnum && cfg.N*len(cfg.Types) >= 8 {
				return
			}
			run(c)
		})
	})
}
