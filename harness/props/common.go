// Package props: one file per property (C01..C20); each registers an engine.Property.
package props

import (
	"encoding/json"

	"fmt"
	"github.com/Azbesciak/RealDecisionMaker/lib/model"
	"math"
	"rdmverif/svc"
	"sort"
	"strings"

	. "rdmverif/engine"
)

var ids6 = []string{"a", "b", "c", "d", "e", "f", "g", "h"}

func quick(s *Shard) bool { return s.Tier != "thorough" }

func viol(c *Case, sig, f string, a ...interface{}) Violation {
	return Violation{Sig: sig, Msg: fmt.Sprintf(f, a...), Case: c}
}

func round8(v float64) float64 { return math.Round(v*1e8) / 1e8 }

func sortedCopy(s []string) []string {
	c := append([]string{}, s...)
	sort.Strings(c)
	return c
}

func sameSet(a, b []string) bool {
	if len(a) != len(b) {
		return false
	}
	x, y := sortedCopy(a), sortedCopy(b)
	for i := range x {
		if x[i] != y[i] {
			return false
		}
	}
	return true
}

func hasDup(a []string) bool {
	m := map[string]bool{}
	for _, x := range a {
		if m[x] {
			return true
		}
		m[x] = true
	}
	return false
}

func contains(a []string, x string) bool {
	for _, y := range a {
		if y == x {
			return true
		}
	}
	return false
}

// alt builds one knownAlternatives entry.
func alt(id string, crit map[string]float64) M {
	c := M{}
	for k, v := range crit {
		c[k] = v
	}
	return M{"id": id, "criteria": c}
}

func strs(a []string) L {
	l := make(L, len(a))
	for i, s := range a {
		l[i] = s
	}
	return l
}

// crit: typ "" leaves the type out of the request (the documented default is gain)
func crit(id, typ string) M {
	if typ == "" {
		return M{"id": id}
	}
	return M{"id": id, "type": typ}
}

func critR(id, typ string, lo, hi float64) M {
	m := crit(id, typ)
	m["valuesRange"] = M{"min": lo, "max": hi}
	return m
}

// perms for permutation-invariance clauses: all n! when n<=full, else rotations + reversal.
func permSet(n, full int) [][]int {
	var out [][]int
	if n <= full {
		Permutations(n, func(p []int) { out = append(out, append([]int{}, p...)) })
		return out
	}
	for r := 0; r < n; r++ {
		p := make([]int, n)
		for i := range p {
			p[i] = (i + r) % n
		}
		out = append(out, p)
	}
	rev := make([]int, n)
	for i := range rev {
		rev[i] = n - 1 - i
	}
	out = append(out, rev)
	return out
}

func permute(a []string, p []int) []string {
	o := make([]string, len(a))
	for i, j := range p {
		o[i] = a[j]
	}
	return o
}

// wellFormed is the C01 oracle on a parsed response: ids(result) as a multiset == expected; links ⊆ ids, no self,
// no duplicate.
func wellFormed(c *Case, r *Response, expected []string) []Violation {
	var vs []Violation
	var got []string
	for _, e := range r.Result {
		got = append(got, e.Alternative.ID)
	}
	if !sameSet(got, expected) || hasDup(got) {
		vs = append(vs, viol(c, "C01/result-ids", "result ids %v, expected exactly %v", got, sortedCopy(expected)))
	}
	for _, e := range r.Result {
		if hasDup(e.BetterThanOrSameAs) {
			vs = append(vs, viol(c, "C01/link-duplicate", "entry %s lists an alternative twice: %v", e.Alternative.ID, e.BetterThanOrSameAs))
		}
		for _, l := range e.BetterThanOrSameAs {
			if l == e.Alternative.ID {
				vs = append(vs, viol(c, "C01/link-self", "entry %s lists itself in betterThanOrSameAs %v", e.Alternative.ID, e.BetterThanOrSameAs))
			} else if !contains(got, l) {
				vs = append(vs, viol(c, "C01/link-unknown", "entry %s links to %s which is not in result %v", e.Alternative.ID, l, got))
			}
		}
	}
	return vs
}

func jsonUnmarshal(b []byte, v interface{}) error { return json.Unmarshal(b, v) }

// cur is the shard being enumerated in this process (nil during replay); stat counts on it.
var cur *Shard

func stat(name string) {
	if cur != nil {
		cur.Counters[name]++
	}
}

func svcDecide(dm *model.DecisionMaker) *model.DecisionMakerChoice { return svc.Decide(dm) }

// renameIDs returns a deep copy of the request with alternative ids replaced everywhere they occur (knownAlternatives,
// choseToMake, currentChoice).
func renameIDs(req M, ren map[string]string) M {
	r := asM(deepCopy(req))
	rn := func(s string) string {
		if n, ok := ren[s]; ok {
			return n
		}
		return s
	}
	for _, a := range asL(r["knownAlternatives"]) {
		asM(a)["id"] = rn(asS(asM(a)["id"]))
	}
	var ch []interface{}
	for _, c := range asL(r["choseToMake"]) {
		ch = append(ch, rn(asS(c)))
	}
	r["choseToMake"] = ch
	if mp := asM(r["methodParameters"]); mp != nil {
		if cc, ok := mp["currentChoice"]; ok {
			mp["currentChoice"] = rn(asS(cc))
		}
	}
	return M(r)
}

var untidyIDs = map[string]string{"a": " a", "b": "b ", "c": "C", "zz": " "}

func mapKeys(m map[string]interface{}) []string {
	var out []string
	for k := range m {
		out = append(out, k)
	}
	sort.Strings(out)
	return out
}

// reverseChose lists choseToMake in the opposite order and leaves knownAlternatives as they are: the order in which the
// alternatives are considered is the request's choseToMake order, not the catalogue order.
func reverseChose(req M) M {
	r := asM(deepCopy(req))
	ch := asL(r["choseToMake"])
	rev := make([]interface{}, len(ch))
	for i := range ch {
		rev[len(ch)-1-i] = ch[i]
	}
	r["choseToMake"] = rev
	return M(r)
}

// manyAlternatives: a heuristic request with n considered alternatives (13 and more: beyond the size up to which the
// standard sort is an insertion sort), ids and choseToMake in two different scrambled orders, values on a three-level
// grid so that many alternatives share a level / tie, one more known alternative that is not considered.
func manyAlternatives(method string, n, pat int, mp M) M {
	ids := make([]string, n)
	for i := range ids {
		ids[i] = fmt.Sprintf("n%02d", (i*7+3)%n)
	}
	var ka L
	for i, id := range ids {
		ka = append(ka, alt(id, map[string]float64{"c1": float64((i*(pat+1) + pat) % 3), "c2": float64((i*(pat+2) + 1) % 3)}))
	}
	ka = append(ka, alt("zz", map[string]float64{"c1": 1, "c2": 1}))
	var chose L
	for i := range ids {
		chose = append(chose, ids[(i*5+1)%n])
	}
	return M{"preferenceFunction": method, "knownAlternatives": ka, "choseToMake": chose, "criteria": L{crit("c1", "gain"), crit("c2", "cost")}, "methodParameters": mp}
}

var manySizes = []int{13, 16, 31}

// floorEdgeCounts: (n, ratio) with n*ratio a whole number k mathematically while float64(n)*ratio lands just below or
// exactly on it — the documented count is floor of the float product, whatever a "tolerant" floor would say.
func floorEdgeCounts() [][2]float64 {
	var out [][2]float64
	for _, n := range []int{22, 23, 26, 49} {
		for j := 1; j < n; j++ {
			r := float64(j) / float64(n)
			p := float64(n) * r
			if p != math.Floor(p) && math.Ceil(p)-p < 1e-9 {
				out = append(out, [2]float64{float64(n), r})
			}
		}
	}
	out = append(out, [2]float64{50, 0.58}, [2]float64{22, 0.5}, [2]float64{23, 0.34})
	return out
}

// wideRequest: n criteria (scrambled pairwise distinct weights, every third a cost criterion), alternatives a, b, c.
func wideRequest(method string, n int) M {
	cids := critIDs(n)
	vals := [][]float64{make([]float64, n), make([]float64, n), make([]float64, n)}
	w := make([]float64, n)
	for j := 0; j < n; j++ {
		w[j] = float64((j*5)%n+1) / 2
		vals[0][j], vals[1][j], vals[2][j] = float64((j*3)%7)+1, float64((j*5+2)%7)+1, float64((j*2+4)%7)+1
	}
	return genericRequest(method, cids, 1, []string{"a", "b", "c"}, vals, []string{"c", "a"}, w)
}

// pascalKeys / camelKeys: option keys spelled the way the README prints them (ReferenceCriterionType, MixingRatio ...) and
// back; decoding of options is case-insensitive.
func pascalKeys(m M) M {
	out := M{}
	for k, v := range m {
		out[strings.ToUpper(k[:1])+k[1:]] = v
	}
	return out
}

func camelKeys(m map[string]interface{}) map[string]interface{} {
	out := map[string]interface{}{}
	for k, v := range m {
		out[strings.ToLower(k[:1])+k[1:]] = v
	}
	return out
}

// reducedByOmissions returns the request without its biases and without the criteria the response reports as omitted
// (criteria list, weights, per-level thresholds, alternatives' values): the request the method actually evaluated.
func reducedByOmissions(req M, resp *Response) M {
	om := map[string]bool{}
	for _, b := range resp.Biases {
		for _, o := range asL(asM(b["props"])["omittedCriteria"]) {
			om[asS(asM(o)["id"])] = true
		}
	}
	r := asM(deepCopy(req))
	delete(r, "biases")
	if len(om) == 0 {
		return M(r)
	}
	var kept []interface{}
	for _, cr := range asL(r["criteria"]) {
		if !om[asS(asM(cr)["id"])] {
			kept = append(kept, cr)
		}
	}
	r["criteria"] = kept
	mp := asM(r["methodParameters"])
	if w := asM(mp["weights"]); w != nil {
		for id := range om {
			delete(w, id)
		}
	}
	for _, t := range asL(asM(mp["params"])["thresholds"]) {
		for id := range om {
			delete(asM(t), id)
		}
	}
	for _, a := range asL(r["knownAlternatives"]) {
		for id := range om {
			delete(asM(asM(a)["criteria"]), id)
		}
	}
	return M(r)
}
