// Package props: one file per property (C01..C20); each registers an engine.Property.
package props

import (
	"encoding/json"

	"fmt"
	"github.com/Azbesciak/RealDecisionMaker/lib/model"
	"math"
	"rdmverif/svc"
	"sort"

	. "rdmverif/engine"
)

var ids6 = []string{"a", "b", "c", "d", "e", "f", "g", "h"}

func quick(s *Shard) bool { return s.Tier != "thorough" }

func viol(c *Case, sig, f string, a ...interface{}) Violation {
	return Violation{Sig: sig, Msg: fmt.Sprintf(f, a...), Case: c}
}

func round8(v float64) float64 { return math.Round(v*1e8) / 1e8 }

func sortedCopy(s []string) []string {
	c := append([]string{}, s...)
	sort.Strings(c)
	return c
}

func sameSet(a, b []string) bool {
	if len(a) != len(b) {
		return false
	}
	x, y := sortedCopy(a), sortedCopy(b)
	for i := range x {
		if x[i] != y[i] {
			return false
		}
	}
	return true
}

func hasDup(a []string) bool {
	m := map[string]bool{}
	for _, x := range a {
		if m[x] {
			return true
		}
		m[x] = true
	}
	return false
}

func contains(a []string, x string) bool {
	for _, y := range a {
		if y == x {
			return true
		}
	}
	return false
}

// alt builds one knownAlternatives entry.
func alt(id string, crit map[string]float64) M {
	c := M{}
	for k, v := range crit {
		c[k] = v
	}
	return M{"id": id, "criteria": c}
}

func strs(a []string) L {
	l := make(L, len(a))
	for i, s := range a {
		l[i] = s
	}
	return l
}

// crit: typ "" leaves the type out of the request (the documented default is gain)
func crit(id, typ string) M {
	if typ == "" {
		return M{"id": id}
	}
	return M{"id": id, "type": typ}
}

func critR(id, typ string, lo, hi float64) M {
	m := crit(id, typ)
	m["valuesRange"] = M{"min": lo, "max": hi}
	return m
}

// perms for permutation-invariance clauses: all n! when n<=full, else rotations + reversal.
func permSet(n, full int) [][]int {
	var out [][]int
	if n <= full {
		Permutations(n, func(p []int) { out = append(out, append([]int{}, p...)) })
		return out
	}
	for r := 0; r < n; r++ {
		p := make([]int, n)
		for i := range p {
			p[i] = (i + r) % n
		}
		out = append(out, p)
	}
	rev := make([]int, n)
	for i := range rev {
		rev[i] = n - 1 - i
	}
	out = append(out, rev)
	return out
}

func permute(a []string, p []int) []string {
	o := make([]string, len(a))
	for i, j := range p {
		o[i] = a[j]
	}
	return o
}

// wellFormed is the C01 oracle on a parsed response: ids(result) as a multiset == expected; links ⊆ ids, no self,
// no duplicate.
func wellFormed(c *Case, r *Response, expected []string) []Violation {
	var vs []Violation
	var got []string
	for _, e := range r.Result {
		got = append(got, e.Alternative.ID)
	}
	if !sameSet(got, expected) || hasDup(got) {
		vs = append(vs, viol(c, "C01/result-ids", "result ids %v, expected exactly %v", got, sortedCopy(expected)))
	}
	for _, e := range r.Result {
		if hasDup(e.BetterThanOrSameAs) {
			vs = append(vs, viol(c, "C01/link-duplicate", "entry %s lists an alternative twice: %v", e.Alternative.ID, e.BetterThanOrSameAs))
		}
		for _, l := range e.BetterThanOrSameAs {
			if l == e.Alternative.ID {
				vs = append(vs, viol(c, "C01/link-self", "entry %s lists itself in betterThanOrSameAs %v", e.Alternative.ID, e.BetterThanOrSameAs))
			} else if !contains(got, l) {
				vs = append(vs, viol(c, "C01/link-unknown", "entry %s links to %s which is not in result %v", e.Alternative.ID, l, got))
			}
		}
	}
	return vs
}

func jsonUnmarshal(b []byte, v interface{}) error { return json.Unmarshal(b, v) }

// cur is the shard being enumerated in this process (nil during replay); stat counts on it.
var cur *Shard

func stat(name string) {
	if cur != nil {
		cur.Counters[name]++
	}
}

func svcDecide(dm *model.DecisionMaker) *model.DecisionMakerChoice { return svc.Decide(dm) }

// renameIDs returns a deep copy of the request with alternative ids replaced everywhere they occur (knownAlternatives,
// choseToMake, currentChoice).
func renameIDs(req M, ren map[string]string) M {
	r := asM(deepCopy(req))
	rn := func(s string) string {
		if n, ok := ren[s]; ok {
			return n
		}
		return s
	}
	for _, a := range asL(r["knownAlternatives"]) {
		asM(a)["id"] = rn(asS(asM(a)["id"]))
	}
	var ch []interface{}
	for _, c := range asL(r["choseToMake"]) {
		ch = append(ch, rn(asS(c)))
	}
	r["choseToMake"] = ch
	if mp := asM(r["methodParameters"]); mp != nil {
		if cc, ok := mp["currentChoice"]; ok {
			mp["currentChoice"] = rn(asS(cc))
		}
	}
	return M(r)
}

var untidyIDs = map[string]string{"a": " a", "b": "b ", "c": "C", "zz": " "}
