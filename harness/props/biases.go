package props

import (
	"fmt"
	"regexp"

	. "rdmverif/engine"
)

// Shared bias alphabet and root requests for the E2 searches (C07, C09, C16-C19, C02, C10, C20).

var rootVals = map[string][]float64{"a": {1, 4, 2}, "b": {3, 1, 2.5}, "c": {2, 2, 0.5}}

func rootRequest(method string, subset bool, ranges bool) M {
	cids := critIDs(3)
	var crits L
	for j, id := range cids {
		t := "gain"
		if j == 1 && method != "choquetIntegral" && method != "owa" {
			t = "cost"
		}
		if ranges {
			crits = append(crits, critR(id, t, 0, 5))
		} else {
			crits = append(crits, crit(id, t))
		}
	}
	var ka L
	for _, id := range []string{"a", "b", "c"} {
		cv := map[string]float64{}
		for j, c := range cids {
			cv[c] = rootVals[id][j]
		}
		ka = append(ka, alt(id, cv))
	}
	chose := L{"a", "b", "c"}
	if subset {
		chose = L{"c", "a"} // not the alphabetically smallest ids and not in sorted order
	}
	w := map[string]float64{"c1": 1, "c2": 2, "c3": 3}
	return M{"preferenceFunction": method, "knownAlternatives": ka, "choseToMake": chose, "criteria": crits,
		"methodParameters": methodParams(method, cids, w, false), "biasApplyRandomSeed": 1}
}

func bias(name string, props M) M { return M{"name": name, "props": props} }

func withBounding(p M, b int) M {
	q := M{}
	for k, v := range p {
		q[k] = v
	}
	switch b {
	case 1:
		q["allowedValuesRangeScaling"] = 1.0
	case 2:
		q["disallowNegativeValues"] = true
	case 3:
		q["allowedValuesRangeScaling"] = 0.5
		q["disallowNegativeValues"] = true
	case 4:
		q["allowedValuesRangeScaling"] = -2.0 // any negative factor means "no limits", not only the default -1
	case 5:
		q["allowedValuesRangeScaling"] = 1.0 // exactly the criterion's own range, and nothing below zero
		q["disallowNegativeValues"] = true
	}
	return q
}

func refStrategy(p M, s int) M {
	q := M{}
	for k, v := range p {
		q[k] = v
	}
	switch s {
	case 0:
		q["referenceCriterionType"] = "importanceRatio"
		q["newCriterionImportance"] = 0.5
	case 1:
		q["referenceCriterionType"] = "randomUniform"
		q["newCriterionRandomSeed"] = 4
	case 2:
		q["referenceCriterionType"] = "randomWeighted"
		q["newCriterionRandomSeed"] = 5
	}
	return q
}

func anchoringBias(applier int, nadir bool, exp bool) M {
	rp := "ideal"
	if nadir {
		rp = "nadir"
	}
	gain := M{"function": "linear", "params": M{"a": 0.5, "b": 0.0}}
	loss := M{"function": "linear", "params": M{"a": 1.0, "b": 0.0}}
	if exp {
		gain = M{"function": "expFromZero", "params": M{"alpha": 1.0, "multiplier": 0.5}}
		loss = M{"function": "expFromZero", "params": M{"alpha": 1.0, "multiplier": 1.0}}
	}
	var ap M
	switch applier {
	case 0:
		ap = M{"function": "inline", "params": M{"applyOnNotConsidered": false}}
	case 1:
		ap = M{"function": "inline", "params": M{"applyOnNotConsidered": true, "allowedValuesRangeScaling": 1.0}}
	default:
		ap = M{"function": "newCriterion", "params": refStrategy(M{"randomSeed": 6}, 0)}
	}
	return bias("anchoring", M{
		"anchoringAlternatives": L{M{"alternative": "a", "coefficient": 1.0}, M{"alternative": "c", "coefficient": 0.5}},
		"referencePoints":       M{"function": rp},
		"gain":                  gain, "loss": loss, "applier": ap,
	})
}

// biasAlphabet: level 2 = full, 1 = medium, 0 = core.
func biasAlphabet(level int) []M {
	var out []M
	ords := []string{"weakest", "strongest", "random", "weakestByProbability", "strongestByProbability"}
	ratios := []float64{0.34, 0.5}
	if level == 0 {
		return []M{
			bias("criteriaOmission", M{"ratio": 0.34, "ordering": "weakest"}),
			bias("preferenceReversal", M{"ratio": 0.34, "ordering": "weakest"}),
			bias("fatigue", M{"function": "const", "params": M{"value": 0.25}, "randomSeed": 2}),
			bias("fatigue", withBounding(M{"function": "expFromZero", "params": M{"alpha": 0.5, "multiplier": 1.0, "queryNumber": 1}, "randomSeed": 3}, 3)),
			bias("criteriaConcealment", refStrategy(M{"randomSeed": 3}, 0)),
			bias("criteriaConcealment", refStrategy(M{"randomSeed": 3, "newCriterionScaling": 0.5}, 1)),
			bias("criteriaMixing", refStrategy(M{"randomSeed": 7, "mixingRatio": 0.5}, 0)),
			anchoringBias(0, false, false),
			anchoringBias(2, true, false),
			bias("criteriaOmission", M{"ratio": 0.5, "ordering": "random", "randomSeed": 9}),
			bias("preferenceReversal", M{"ratio": 0.5, "ordering": "strongest"}),
			anchoringBias(1, true, true),
		}
	}
	for _, name := range []string{"criteriaOmission", "preferenceReversal"} {
		for oi, o := range ords {
			for ri, r := range ratios {
				if level == 1 && (oi+ri)%2 == 1 {
					continue
				}
				out = append(out, bias(name, M{"ratio": r, "ordering": o, "randomSeed": 9}))
			}
		}
	}
	out = append(out, bias("criteriaOmission", M{"ratio": 0.67, "max": 1}), bias("preferenceReversal", M{"ratio": 1.0, "max": 1, "min": 1}))
	out = append(out, bias("criteriaOmission", M{"ratio": 0.67})) // leaves a single criterion of three
	{
		// inline anchoring with its applier parameters left out (documented default: considered alternatives only)
		ab := anchoringBias(0, false, false)
		delete(asM(asM(ab["props"])["applier"]), "params")
		out = append(out, ab)
	}
	for fi, f := range []M{{"function": "const", "params": M{"value": 0.25}, "randomSeed": 2}, {"function": "expFromZero", "params": M{"alpha": 0.5, "multiplier": 1.0, "queryNumber": 1}, "randomSeed": 3}} {
		for b := 0; b < 3; b++ {
			if level == 1 && (fi+b)%2 == 1 {
				continue
			}
			out = append(out, bias("fatigue", withBounding(f, b)))
		}
	}
	for s := 0; s < 3; s++ {
		for b := 0; b < 2; b++ {
			if level == 1 && b == 1 && s > 0 {
				continue
			}
			out = append(out, bias("criteriaConcealment", withBounding(refStrategy(M{"randomSeed": 3}, s), b)))
		}
	}
	// reference-criterion parameters left to their documented defaults / set to the other extreme: a parameter that
	// leaked from one application into the next would show between these
	out = append(out, bias("criteriaConcealment", M{"randomSeed": 3}), bias("criteriaConcealment", M{"randomSeed": 3, "newCriterionImportance": 1.0}),
		bias("criteriaMixing", M{"randomSeed": 7}), bias("criteriaMixing", M{"randomSeed": 7, "newCriterionImportance": 1.0}))
	for _, mr := range []float64{0, 0.5, 1} {
		for s := 0; s < 3; s++ {
			if level == 1 && s > 0 && mr != 0.5 {
				continue
			}
			out = append(out, bias("criteriaMixing", refStrategy(M{"randomSeed": 7, "mixingRatio": mr}, s)))
		}
	}
	for ap := 0; ap < 3; ap++ {
		for _, nadir := range []bool{false, true} {
			for _, exp := range []bool{false, true} {
				if level == 1 && nadir == exp {
					continue
				}
				out = append(out, anchoringBias(ap, nadir, exp))
			}
		}
	}
	return out
}

func biasLabel(b M) string {
	n := asS(b["name"])
	if n == "anchoring" {
		n += ":" + asS(asM(asM(b["props"])["applier"])["function"])
	}
	return n
}

var reQuoted = regexp.MustCompile(`'[^']*'|"[^"]*"|\[[^\]]*\]|map\[.*|\{.*|[-+]?[0-9]+(\.[0-9]+)?(e[-+]?[0-9]+)?`)

// normPanic turns a panic message into a stable failure-mode label.
func normPanic(msg string) string {
	s := reQuoted.ReplaceAllString(msg, "_")
	if len(s) > 70 {
		s = s[:70]
	}
	return slugify(s)
}

func slugify(s string) string {
	return regexp.MustCompile(`[^A-Za-z0-9_.:-]+`).ReplaceAllString(s, "-")
}

func withBiases(root M, bs []M) M {
	r := M{}
	for k, v := range root {
		r[k] = v
	}
	l := L{}
	var known []string
	for _, a := range asL(root["knownAlternatives"]) {
		known = append(known, asS(asM(a)["id"]))
	}
	for _, b := range bs {
		if asS(b["name"]) == "anchoring" && len(known) > 0 && !(contains(known, "a") && contains(known, "c")) {
			// the alphabet names alternatives a and c; on roots with other ids use the first and the last known alternative
			nb := asM(deepCopy(b))
			aa := asL(asM(nb["props"])["anchoringAlternatives"])
			for i, x := range aa {
				if i == 0 {
					asM(x)["alternative"] = known[0]
				} else {
					asM(x)["alternative"] = known[len(known)-1]
				}
			}
			b = M(nb)
		}
		l = append(l, b)
	}
	r["biases"] = l
	return r
}

func fmtPath(bs []M) string {
	s := ""
	for i, b := range bs {
		if i > 0 {
			s += " > "
		}
		s += biasLabel(b)
	}
	return s
}

var _ = fmt.Sprint

// negativeVariant makes criterion c1 strictly negative for every known alternative (observed range entirely below 0).
// wideVariant adds two known alternatives that are never considered and lie beyond all others on every criterion, one
// below and one above: whatever is computed over "all known alternatives" (observed ranges, bounding) must include both
// ends, and joining the considered and the not-considered range must extend it on both sides at once.
func wideVariant(root M) M {
	r := asM(deepCopy(root))
	lo, hi := map[string]float64{}, map[string]float64{}
	for _, a := range asL(r["knownAlternatives"]) {
		for k, v := range asM(asM(a)["criteria"]) {
			f := asF(v)
			if l, ok := lo[k]; !ok || f < l {
				lo[k] = f
			}
			if h, ok := hi[k]; !ok || f > h {
				hi[k] = f
			}
		}
	}
	below, above := map[string]float64{}, map[string]float64{}
	for k := range lo {
		below[k] = lo[k] - 1.5
		above[k] = hi[k] + 2.5
	}
	// the low one first, the high one last: a fold over the not-considered alternatives meets both
	r["knownAlternatives"] = append(append(L{alt("d", below)}, asL(r["knownAlternatives"])...), alt("e", above))
	return M(r)
}

// degenerateVariant: c3 has one and the same value for every known alternative (a zero-width observed range), c1 is 0
// for every known alternative when zero is set.
func degenerateVariant(root M, zero bool) M {
	r := asM(deepCopy(root))
	for _, a := range asL(r["knownAlternatives"]) {
		cm := asM(asM(a)["criteria"])
		cm["c3"] = 2.0
		if zero {
			cm["c1"] = 0.0
		}
	}
	for _, c := range asL(r["criteria"]) {
		delete(asM(c), "valuesRange")
	}
	return M(r)
}

func negativeVariant(root M) M {
	r := asM(deepCopy(root))
	for _, a := range asL(r["knownAlternatives"]) {
		cm := asM(asM(a)["criteria"])
		cm["c1"] = -asF(cm["c1"]) - 1
	}
	for _, c := range asL(r["criteria"]) {
		if asS(asM(c)["id"]) == "c1" {
			delete(asM(c), "valuesRange")
		}
	}
	return M(r)
}

// genericRequest builds a request over arbitrary ids (criteria ids cids, alternatives with their value rows, considered list).
func genericRequest(method string, cids []string, costIdx int, alts []string, vals [][]float64, chose []string, w []float64) M {
	var crits L
	for j, id := range cids {
		t := "gain"
		if j == costIdx && method != "choquetIntegral" && method != "owa" {
			t = "cost"
		}
		crits = append(crits, crit(id, t))
	}
	var ka L
	for i, id := range alts {
		cv := map[string]float64{}
		for j, c := range cids {
			cv[c] = vals[i][j]
		}
		ka = append(ka, alt(id, cv))
	}
	wm := map[string]float64{}
	for j, c := range cids {
		wm[c] = w[j]
	}
	mp := methodParams(method, cids, wm, false)
	if method == "choquetIntegral" {
		// capacities normalised so that every subset stays within [0,1] for any number of criteria
		total := 0.0
		for _, x := range w {
			total += x
		}
		caps := M{}
		for _, sub := range subsetsOf(cids) {
			t := 0.0
			for _, c := range sub {
				t += wm[c]
			}
			caps[joinComma(sub)] = t / total
		}
		mp = M{"weights": caps}
	}
	return M{"preferenceFunction": method, "knownAlternatives": ka, "choseToMake": strs(chose), "criteria": crits, "methodParameters": mp, "biasApplyRandomSeed": 1}
}

func joinComma(a []string) string {
	s := ""
	for i, x := range a {
		if i > 0 {
			s += ","
		}
		s += x
	}
	return s
}

// oddIdsRequest: identifiers that are valid but untidy — upper case (sorts before the generated "__..." ids), an id that
// is a prefix of another, an id that itself starts with "__", ids with leading / trailing whitespace, a whitespace-only id and
// non-ASCII letters; considered set
// neither sorted nor an alphabetical prefix.
func oddIdsRequest(method string) M {
	return genericRequest(method, []string{"Quality", "c1", "c10", "__own"}, 1, []string{"α", " a", "a", "ab ", " "},
		[][]float64{{1, 4, 2, 3}, {3, 1, 2.5, 1}, {2, 2, 0.5, 2}, {2.5, 3, 1, 0.5}, {1.5, 2.5, 1.5, 1.5}}, []string{"a", "α", " a", "ab "}, []float64{1, 2, 3, 1.5})
}

// bigRequest: five criteria, six alternatives, four of them considered.
func bigRequest(method string) M {
	return genericRequest(method, critIDs(5), 1, []string{"a", "b", "c", "d", "e", "f"},
		[][]float64{{1, 4, 2, 3, 0.5}, {3, 1, 2.5, 1, 2}, {2, 2, 0.5, 2, 3}, {2.5, 3, 1, 0.5, 1}, {0.5, 2.5, 3, 2, 1.5}, {3, 3.5, 1.5, 1, 2.5}},
		[]string{"f", "b", "d", "a"}, []float64{1, 2, 3, 1.5, 2.5})
}

// tinyVariant scales criterion c3 of every known alternative to the 1e-9 range (observed range only a few 1e-9 wide).
func tinyVariant(root M) M {
	r := asM(deepCopy(root))
	for _, a := range asL(r["knownAlternatives"]) {
		cm := asM(asM(a)["criteria"])
		cm["c3"] = asF(cm["c3"]) * 1e-9
	}
	for _, c := range asL(r["criteria"]) {
		if asS(asM(c)["id"]) == "c3" {
			delete(asM(c), "valuesRange")
		}
	}
	return M(r)
}

// nearScale: equal up to 1e-12 of the magnitude of the operands involved (not of the result, which may cancel).
func nearScale(a, b, scale float64) bool {
	if scale < 0 {
		scale = -scale
	}
	d := a - b
	if d < 0 {
		d = -d
	}
	return d <= 1e-12*scale+1e-300
}

// typelessVariant: every gain criterion is declared without "type" (the documented default is gain).
func typelessVariant(root M) M {
	r := asM(deepCopy(root))
	for _, c := range asL(r["criteria"]) {
		if asS(asM(c)["type"]) == "gain" {
			delete(asM(c), "type")
		}
	}
	return M(r)
}
