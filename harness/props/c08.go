package props

import (
	"bytes"
	"fmt"
	"math"

	"github.com/Azbesciak/RealDecisionMaker/lib/utils"

	. "rdmverif/engine"
	"rdmverif/svc"
)

// C08 — bias switches and apply-probabilities behave as documented (DESIGN.md 6.C08).

const actSeed = 987654321

func init() {
	Register(&Property{
		ID: "C08", Level: "exploration",
		Rule: "E1 full product: bias lists of length 0..3 over {fatigue, criteriaOmission, preferenceReversal} x applyProbability {absent,0,0.25,1}, plus disabled variants of each and a disabled unknown name " +
			"x scripted activation draws {0, 0.25-ulp, 0.25, 1-ulp}^3 (the activation generator is scripted, all other generators stay real). Oracle (relational): one response entry per enabled bias " +
			"in order echoing name/probability; a request with disabled entries == the request without them (bytes); for a fixed script the firing of enabled position i with probability p is invariant " +
			"under every change of the other entries; monotone in p; p=1/absent always, p=0 never; a non-firing entry reports props:null and the response equals the one with p=0 there. " +
			"Independence is additionally checked with the real generators (64 seeds, thorough 512, x 3 probability vectors x 5^3 assignments of bias kinds/seeds to the positions). Frequency clause: real generator, all seeds 0..4095 (thorough 0..65535) x 3 positions x p in {0.1,0.25,0.5,0.9}: |freq-p|<=0.03. " +
			"distinct_nontrivial = distinct (script, firing pattern, list shape) with at least one enabled bias.",
		Assume:   []string{"probability menu {0,0.25,1}; the draw menu brackets 0.25 from both sides; frequency is swept over a finite seed range"},
		Run:      c08Run,
		Check:    c08Check,
		Finalize: c08Finalize,
	})
}

type c08Entry struct {
	Kind     int // 0 fatigue, 1 omission, 2 reversal, 3 unknown(disabled)
	Disabled bool
	Prob     int // 0 absent, 1: 0, 2: 0.25, 3: 1
}

var c08Probs = []float64{-1, 0, 0.25, 1, 1e-12, 1 - 1e-12}
var c08Draws = []float64{0, 0.25 - 1.0/(1<<54), 0.25, 1 - 1.0/(1<<53)}

func c08BiasJSON(e c08Entry) M {
	var m M
	switch e.Kind {
	case 0:
		m = M{"name": "fatigue", "props": M{"function": "const", "params": M{"value": 0.125}, "randomSeed": 1}}
	case 1:
		m = M{"name": "criteriaOmission", "props": M{"ratio": 0.34}}
	case 2:
		m = M{"name": "preferenceReversal", "props": M{"ratio": 0.34}}
	case 6:
		// a bias that fires and, by its own parameters, changes nothing (fatigue ratio 0): fired all the same
		m = M{"name": "fatigue", "props": M{"function": "const", "params": M{"value": 0.0}, "randomSeed": 1}}
	case 4:
		m = M{"name": " ", "props": M{}}
	case 5:
		m = M{"props": M{"ratio": 0.5}}
	default:
		m = M{"name": "noSuchBias", "props": M{}}
	}
	if e.Disabled {
		m["disabled"] = true
	}
	if e.Prob > 0 {
		m["applyProbability"] = c08Probs[e.Prob]
	}
	return m
}

// considered set of the C08 requests: two of the three known alternatives unless the case says otherwise
var c08Chose = L{"a", "b"}

func c08Request(list []c08Entry, seed int64) M {
	var bs L
	for _, e := range list {
		bs = append(bs, c08BiasJSON(e))
	}
	if bs == nil {
		bs = L{}
	}
	return M{
		"preferenceFunction":  "weightedSum",
		"knownAlternatives":   L{alt("a", map[string]float64{"c1": 1, "c2": 4, "c3": 2}), alt("b", map[string]float64{"c1": 3, "c2": 1, "c3": 2.5}), alt("c", map[string]float64{"c1": 2, "c2": 2, "c3": 0.5})},
		"choseToMake":         c08Chose,
		"criteria":            L{crit("c1", "gain"), crit("c2", "cost"), crit("c3", "gain")},
		"methodParameters":    M{"weights": M{"c1": 1.0, "c2": 2.0, "c3": 3.0}},
		"biasApplyRandomSeed": seed,
		"biases":              bs,
	}
}

// activation script: the stream opened with actSeed answers from draws; every other stream is the real generator.
func c08Script(draws []float64) *svc.Script {
	real := map[int]utils.ValueGenerator{}
	return &svc.Script{Answer: func(stream int, seed int64, call int) float64 {
		if seed == actSeed {
			if call < len(draws) {
				return draws[call]
			}
			return 0.5
		}
		g := real[stream]
		if g == nil {
			g = utils.RandomBasedSeedValueGenerator(seed)
			real[stream] = g
		}
		return g()
	}}
}

type c08Obs struct {
	resp   *Response
	body   []byte
	fired  []bool
	result []byte
}

var c08Cache map[string]*c08Obs

func c08Observe(req M, draws []float64) (*c08Obs, string) {
	key := ""
	if c08Cache != nil && draws != nil {
		key = fmt.Sprint(draws) + string(J(req))
		if o, ok := c08Cache[key]; ok {
			return o, ""
		}
	}
	o, e := c08ObserveRaw(req, draws)
	if o != nil && key != "" {
		c08Cache[key] = o
	}
	return o, e
}

func c08ObserveRaw(req M, draws []float64) (*c08Obs, string) {
	var sc *svc.Script
	if draws != nil {
		sc = c08Script(draws)
	}
	out := Decide(J(req), sc)
	if !out.Accepted {
		return nil, out.Err
	}
	resp, err := ParseResponse(out.Body)
	if err != nil {
		return nil, err.Error()
	}
	o := &c08Obs{resp: resp, body: out.Body}
	for _, b := range resp.Biases {
		o.fired = append(o.fired, b["props"] != nil)
	}
	o.result = J(resp.Result)
	return o, ""
}

func c08List(c *Case) ([]c08Entry, []float64) {
	var list []c08Entry
	jsonUnmarshal(J(c.Params["list"]), &list)
	return list, toFloats(c.Params["draws"])
}

// c08Check: all per-case clauses (the cross-case independence clause is evaluated by the run over its tables).
func c08Check(c *Case) []Violation {
	if c.Kind == "frequency" {
		return c08CheckFrequency(c)
	}
	if c.Kind == "real-history" {
		return c08History(c)
	}
	if c.Kind == "real-independence" {
		a, _ := c08ObserveRaw(asM(roundTrip(c.Req)), nil)
		b, _ := c08ObserveRaw(asM(roundTrip(c.Params["reference_request"])), nil)
		if a == nil || b == nil || fmt.Sprint(a.fired) != fmt.Sprint(b.fired) {
			return []Violation{viol(c, "C08/independence-real-generator", "the two requests differ only in the other biases' kinds/props but fire at different positions")}
		}
		return nil
	}
	list, draws := c08List(c)
	_, vs := c08CheckList(c, list, draws)
	return vs
}

func c08CheckList(c *Case, list []c08Entry, draws []float64) (*c08Obs, []Violation) {
	c08Chose = L{"a", "b"}
	if ch, ok := c.Params["chose"]; ok {
		c08Chose = L{}
		for _, id := range toStrings(ch) {
			c08Chose = append(c08Chose, id)
		}
	}
	defer func() { c08Chose = L{"a", "b"} }()
	if draws != nil {
		// the script answers 0.5 beyond its listed draws: spell that out, one draw per entry
		for len(draws) < len(list) {
			draws = append(append([]float64{}, draws...), 0.5)
		}
	}
	req := c08Request(list, actSeed)
	o, e := c08Observe(req, draws)
	if o == nil {
		return nil, []Violation{viol(c, "C08/rejected", "request rejected: %s", e)}
	}
	var vs []Violation
	var enabled []c08Entry
	for _, x := range list {
		if !x.Disabled {
			enabled = append(enabled, x)
		}
	}
	if len(o.resp.Biases) != len(enabled) {
		return o, []Violation{viol(c, "C08/entry-count", "response has %d bias entries for %d enabled biases", len(o.resp.Biases), len(enabled))}
	}
	names := []string{"fatigue", "criteriaOmission", "preferenceReversal", "noSuchBias", " ", "", "fatigue"}
	for i, x := range enabled {
		b := o.resp.Biases[i]
		wantP := 1.0
		if x.Prob > 0 {
			wantP = c08Probs[x.Prob]
		}
		if _, has := b["applyProbability"].(float64); !has {
			vs = append(vs, viol(c, "C08/echo", "bias entry %d carries no applyProbability (keys %v), request had %v", i, mapKeys(b), wantP))
		}
		if _, has := b["name"].(string); !has {
			vs = append(vs, viol(c, "C08/echo", "bias entry %d carries no name (keys %v)", i, mapKeys(b)))
		}
		if asS(b["name"]) != names[x.Kind] || asF(b["applyProbability"]) != wantP {
			vs = append(vs, viol(c, "C08/echo", "bias entry %d echoes name=%v applyProbability=%v, request had %s / %v", i, b["name"], b["applyProbability"], names[x.Kind], wantP))
		}
		if wantP == 1 && !o.fired[i] {
			vs = append(vs, viol(c, "C08/p1-not-fired", "bias %d (%s) with probability 1 did not fire (draws %v)", i, names[x.Kind], draws))
		}
		if wantP == 0 && o.fired[i] {
			vs = append(vs, viol(c, "C08/p0-fired", "bias %d (%s) with probability 0 fired (draws %v)", i, names[x.Kind], draws))
		}
	}
	// disabled == absent
	if len(enabled) != len(list) {
		o2, e2 := c08Observe(c08Request(enabled, actSeed), draws)
		if o2 == nil {
			vs = append(vs, viol(c, "C08/rejected", "request without the disabled entries rejected: %s", e2))
		} else if !bytes.Equal(o.body, o2.body) {
			vs = append(vs, viol(c, "C08/disabled-not-absent", "a request with disabled entries answers differently from the same request without them"))
		}
	}
	// a non-firing entry changes nothing: the result and the other entries' reports equal those of the list WITHOUT the
	// entry, with its activation draw removed from the script so that the other positions keep their draws
	for i := range enabled {
		if o.fired[i] || draws == nil {
			continue
		}
		without := append(append([]c08Entry{}, enabled[:i]...), enabled[i+1:]...)
		d2 := append(append([]float64{}, draws[:i]...), draws[i+1:]...)
		o4, e4 := c08Observe(c08Request(without, actSeed), d2)
		if o4 == nil {
			vs = append(vs, viol(c, "C08/rejected", "request without the non-firing entry rejected: %s", e4))
			continue
		}
		same := bytes.Equal(o.result, o4.result) && len(o4.resp.Biases) == len(enabled)-1
		for j := 0; same && j < len(o4.resp.Biases); j++ {
			k := j
			if j >= i {
				k = j + 1
			}
			if !bytes.Equal(J(o.resp.Biases[k]), J(o4.resp.Biases[j])) {
				same = false
			}
		}
		if !same {
			vs = append(vs, viol(c, "C08/non-firing-not-a-no-op", "bias %d did not fire, yet the response differs from the one for the same list without that entry (draws realigned)", i))
		}
	}
	// a non-firing entry changes nothing: same result and same other reports as with p = 0 at that position
	for i, x := range enabled {
		if o.fired[i] || x.Prob == 1 {
			continue
		}
		alt := append([]c08Entry{}, enabled...)
		alt[i].Prob = 1
		o3, e3 := c08Observe(c08Request(alt, actSeed), draws)
		if o3 == nil {
			vs = append(vs, viol(c, "C08/rejected", "request with p=0 rejected: %s", e3))
			continue
		}
		if len(o3.resp.Biases) != len(enabled) {
			vs = append(vs, viol(c, "C08/entry-count", "with applyProbability 0 at position %d the response has %d bias entries for %d enabled biases", i, len(o3.resp.Biases), len(enabled)))
			continue
		}
		same := bytes.Equal(o.result, o3.result)
		for j := range enabled {
			if j != i && !bytes.Equal(J(o.resp.Biases[j]), J(o3.resp.Biases[j])) {
				same = false
			}
		}
		if !same {
			vs = append(vs, viol(c, "C08/non-firing-changes", "bias %d did not fire (props:null) but the response differs from the one with applyProbability 0 at that position", i))
		}
	}
	return o, vs
}

// c08History: prefixes of the list first, the list last in this process; the list first, its prefixes last in a fresh one.
func c08History(c *Case) []Violation {
	req := asM(roundTrip(c.Req))
	bs := asL(req["biases"])
	var reqs []M
	var here []string
	for n := 1; n <= len(bs); n++ {
		r := asM(deepCopy(req))
		r["biases"] = bs[:n]
		reqs = append(reqs, M(r))
		here = append(here, bodyHash(Decide(J(r), nil).Body))
	}
	rev := make([]M, len(reqs))
	for i := range reqs {
		rev[len(reqs)-1-i] = reqs[i]
	}
	ans, err := freshAnswers(rev)
	if err != nil {
		stat("fresh_process_unavailable")
		if cur != nil {
			cur.Exhaustive = false
			cur.Notes = append(cur.Notes, "fresh-process comparison skipped: "+err.Error())
		}
		return nil
	}
	stat("fresh_process_requests")
	for i := range reqs {
		if ans[len(reqs)-1-i].Hash != here[i] {
			return []Violation{viol(c, "C08/firing-depends-on-history", "the first %d entries of this list are answered differently here (after the shorter lists with the same biasApplyRandomSeed) and by a fresh process that met the longer lists first", i+1)}
		}
	}
	return nil
}

func c08CheckFrequency(c *Case) []Violation {
	p := asF(c.Params["p"])
	lo, hi := int64(asF(c.Params["seed_lo"])), int64(asF(c.Params["seed_hi"]))
	fires := make([]int, 3)
	for seed := lo; seed < hi; seed++ {
		list := []c08Entry{{Kind: 0}, {Kind: 0}, {Kind: 0}}
		req := c08Request(list, seed)
		for _, b := range asL(req["biases"]) {
			asM(b)["applyProbability"] = p
		}
		o, e := c08Observe(req, nil)
		if o == nil {
			return []Violation{viol(c, "C08/rejected", "request rejected: %s", e)}
		}
		for i, f := range o.fired {
			if f {
				fires[i]++
			}
		}
	}
	if cur != nil {
		cur.Data[fmt.Sprintf("freq/%v/%d", p, lo)] = fires
		return nil
	}
	var vs []Violation
	for i, f := range fires {
		fr := float64(f) / float64(hi-lo)
		if math.Abs(fr-p) > 0.03 {
			vs = append(vs, viol(c, "C08/frequency", "position %d with probability %v fired with frequency %.4f over seeds %d..%d", i, p, fr, lo, hi))
		}
	}
	return vs
}

func c08Run(s *Shard) {
	cur = s
	// entry menu
	var menu []c08Entry
	for k := 0; k < 3; k++ {
		for p := 0; p < 4; p++ {
			menu = append(menu, c08Entry{k, false, p})
		}
		if k == 0 {
			menu = append(menu, c08Entry{k, false, 4}, c08Entry{k, false, 5}) // probabilities extremely close to 0 and to 1
		}
		menu = append(menu, c08Entry{k, true, k + 1}) // a disabled entry's probability is irrelevant: one variant each
	}
	menu = append(menu, c08Entry{3, true, 0}, c08Entry{3, true, 2}, c08Entry{4, true, 0}, c08Entry{5, true, 0}) // unknown, blank and missing names (disabled)
	var lists [][]c08Entry
	lists = append(lists, nil)
	for _, a := range menu {
		lists = append(lists, []c08Entry{a})
		for _, b := range menu {
			lists = append(lists, []c08Entry{a, b})
			for _, c := range menu {
				lists = append(lists, []c08Entry{a, b, c})
			}
		}
	}
	// a firing bias whose effect is nil (fatigue ratio 0), alone and next to ordinary entries
	for _, p6 := range []int{0, 1, 2, 3} {
		z := c08Entry{6, false, p6}
		lists = append(lists, []c08Entry{z}, []c08Entry{z, z})
		for _, o := range []c08Entry{{0, false, 0}, {1, false, 2}, {2, false, 3}} {
			lists = append(lists, []c08Entry{z, o}, []c08Entry{o, z}, []c08Entry{o, z, o})
		}
	}
	s.Bounds["lists"] = len(lists)
	s.Bounds["draw_scripts"] = 64
	sampled := false
	Product([]int{4, 4, 4}, func(di []int) {
		if !s.Take() {
			return
		}
		draws := []float64{c08Draws[di[0]], c08Draws[di[1]], c08Draws[di[2]]}
		// independence table for this script: (enabled position, probability) -> fired, with the first witness
		type key struct{ pos, prob int }
		seen := map[key]bool{}
		witness := map[key][]c08Entry{}
		c08Cache = map[string]*c08Obs{} // observations are a function of (request, script): memoised per script
		for _, list := range lists {
			c := &Case{Prop: "C08", Kind: "list", Params: M{"list": list, "draws": draws}}
			s.Evals++
			s.Begin(c)
			o, vs := c08CheckList(c, list, draws)
			s.Report(vs)
			if o == nil || len(vs) > 0 {
				continue // the per-list clauses failed (e.g. wrong number of entries): no independence bookkeeping on it
			}
			pos := 0
			pattern := ""
			for _, x := range list {
				if x.Disabled {
					continue
				}
				k := key{pos, x.Prob}
				if prev, ok := seen[k]; ok {
					if prev != o.fired[pos] {
						cc := &Case{Prop: "C08", Kind: "list", Params: M{"list": list, "draws": draws, "other_list": witness[k]}}
						s.Report([]Violation{viol(cc, "C08/independence", "with the same activation draws %v, enabled position %d with applyProbability %v fires=%v here but fires=%v in the list %v: firing depends on the other biases",
							draws, pos, c08Probs[x.Prob], o.fired[pos], prev, witness[k])})
					}
				} else {
					seen[k] = o.fired[pos]
					witness[k] = list
				}
				pattern += fmt.Sprint(o.fired[pos])
				pos++
			}
			s.Outcome(pos > 0, fmt.Sprint(di), pattern, fmt.Sprint(list))
			if !sampled && len(list) == 3 && !list[0].Disabled && list[1].Disabled {
				s.Sample(M{"request": c08Request(list, actSeed), "activation_draws": draws})
				sampled = true
			}
		}
		// monotone in the own probability
		for pos := 0; pos < 3; pos++ {
			f0, ok0 := seen[key{pos, 1}]
			f25, ok25 := seen[key{pos, 2}]
			f1, ok1 := seen[key{pos, 3}]
			if ft, okt := seen[key{pos, 4}]; okt && ok0 && ok25 && ((f0 && !ft) || (ft && !f25)) {
				c := &Case{Prop: "C08", Kind: "list", Params: M{"list": witness[key{pos, 4}], "draws": draws}}
				s.Report([]Violation{viol(c, "C08/monotone", "position %d: fires at p=0:%v p=1e-12:%v p=0.25:%v under draws %v", pos, f0, ft, f25, draws)})
			}
			if fh, okh := seen[key{pos, 5}]; okh && ok1 && ok25 && ((f25 && !fh) || (fh && !f1)) {
				c := &Case{Prop: "C08", Kind: "list", Params: M{"list": witness[key{pos, 5}], "draws": draws}}
				s.Report([]Violation{viol(c, "C08/monotone", "position %d: fires at p=0.25:%v p=1-1e-12:%v p=1:%v under draws %v", pos, f25, fh, f1, draws)})
			}
			if ok0 && ok25 && ok1 && ((f0 && !f25) || (f25 && !f1)) {
				c := &Case{Prop: "C08", Kind: "list", Params: M{"list": witness[key{pos, 2}], "draws": draws}}
				s.Report([]Violation{viol(c, "C08/monotone", "position %d: fires at p=0:%v p=0.25:%v p=1:%v under draws %v", pos, f0, f25, f1, draws)})
			}
		}
	})
	// other considered sets (a single alternative, every known alternative, an unsorted pair): the per-list clauses for
	// every list of at most two entries under the four constant draw scripts
	for _, chose := range [][]string{{"b"}, {"a", "b", "c"}, {"c", "a"}} {
		for k := 0; k < 4; k++ {
			if !s.Take() {
				continue
			}
			draws := []float64{c08Draws[k], c08Draws[k], c08Draws[k]}
			c08Cache = map[string]*c08Obs{}
			for _, list := range lists {
				if len(list) > 2 {
					continue
				}
				c := &Case{Prop: "C08", Kind: "list", Params: M{"list": list, "draws": draws, "chose": chose}}
				s.Evals++
				s.Begin(c)
				_, vs := c08CheckList(c, list, draws)
				s.Report(vs)
			}
		}
	}
	// long lists (one bias may be listed many times): 63..70 and 130 entries, enabled / disabled / probability 0 mixed in;
	// every clause of the per-list check at every position, scripted draws (0.5 from the fourth position on)
	c08Cache = nil
	for _, n := range []int{63, 64, 65, 70, 130} {
		for pat := 0; pat < 4; pat++ {
			if !s.Take() {
				continue
			}
			list := make([]c08Entry, n)
			for i := range list {
				list[i] = c08Entry{Kind: 0, Prob: 0}
				switch {
				case pat == 1 && i%7 == 3:
					list[i] = c08Entry{Kind: 0, Prob: 1} // probability 0 here and there
				case pat == 2 && i%5 == 1:
					list[i] = c08Entry{Kind: 1, Disabled: true, Prob: 2}
				case pat == 3 && i%2 == 0:
					list[i] = c08Entry{Kind: 0, Prob: 2} // 0.25 against the scripted 0.5: never from the fourth position on
				}
			}
			draws := []float64{0, 0.25, 1 - 1.0/(1<<53)}
			c := &Case{Prop: "C08", Kind: "list", Params: M{"list": list, "draws": draws}}
			s.Evals++
			s.Begin(c)
			o, vs := c08CheckList(c, list, draws)
			if o != nil && len(vs) == 0 && pat == 3 {
				pos := 0
				for _, x := range list {
					if x.Disabled {
						continue
					}
					if pos >= 3 && (x.Prob == 2) == o.fired[pos] {
						vs = append(vs, viol(c, "C08/monotone", "position %d of %d with probability %v against the draw 0.5: fired=%v", pos, n, c08Probs[x.Prob], o.fired[pos]))
						break
					}
					pos++
				}
			}
			s.Report(vs)
		}
	}
	// independence with the REAL generators: for a fixed biasApplyRandomSeed and fixed probabilities per position, which
	// positions fire must not depend on what the other biases are or on their own seeds/props
	realKinds := []M{
		{"name": "fatigue", "props": M{"function": "const", "params": M{"value": 0.125}, "randomSeed": 1}},
		{"name": "fatigue", "props": M{"function": "const", "params": M{"value": 0.125}, "randomSeed": 2}},
		{"name": "criteriaMixing", "props": M{"randomSeed": 7}},
		{"name": "preferenceReversal", "props": M{"ratio": 0.34}},
		{"name": "criteriaConcealment", "props": M{"randomSeed": 5, "referenceCriterionType": "randomUniform", "newCriterionRandomSeed": 3}},
	}
	probVecs := [][]float64{{1, 0.5, 0.5}, {0.5, 0.5, 0.5}, {-1, 0.25, 0.75}}
	nSeeds := int64(64)
	if !quick(s) {
		nSeeds = 512
	}
	s.Bounds["real_generator_independence_seeds"] = nSeeds
	for seed := int64(0); seed < nSeeds; seed++ {
		if !s.Take() {
			continue
		}
		for _, pv := range probVecs {
			var first []bool
			var firstReq M
			{
				// the same list cut to its first one and first two entries is served BEFORE the full list here and AFTER
				// it by a fresh process: which positions fire must not depend on the list lengths this seed met before
				var bs L
				for pos := 0; pos < 3; pos++ {
					b := M{"name": realKinds[0]["name"], "props": realKinds[0]["props"]}
					if pv[pos] >= 0 {
						b["applyProbability"] = pv[pos]
					}
					bs = append(bs, b)
				}
				req := c08Request(nil, seed)
				req["biases"] = bs
				c := &Case{Prop: "C08", Kind: "real-history", Req: req}
				s.Evals += 3
				s.Begin(c)
				s.Report(c08Check(c))
			}
			Product([]int{len(realKinds), len(realKinds), len(realKinds)}, func(ki []int) {
				var bs L
				for pos, k := range ki {
					b := M{"name": realKinds[k]["name"], "props": realKinds[k]["props"]}
					if pv[pos] >= 0 {
						b["applyProbability"] = pv[pos]
					}
					bs = append(bs, b)
				}
				req := c08Request(nil, seed)
				req["biases"] = bs
				c := &Case{Prop: "C08", Kind: "real-independence", Req: req, Params: M{"reference_request": firstReq}}
				s.Evals++
				s.Begin(c)
				o, e := c08ObserveRaw(req, nil)
				if o == nil {
					s.Report([]Violation{viol(c, "C08/rejected", "request rejected: %s", e)})
					return
				}
				if first == nil {
					first, firstReq = o.fired, req
					return
				}
				if fmt.Sprint(first) != fmt.Sprint(o.fired) {
					s.Report([]Violation{viol(c, "C08/independence-real-generator", "biasApplyRandomSeed %d, probabilities %v: positions fire %v with these biases but %v with other biases at the same positions", seed, pv, o.fired, first)})
				}
			})
		}
	}
	// frequency clause, real generator
	maxSeed := int64(4096)
	if !quick(s) {
		maxSeed = 65536
	}
	s.Bounds["frequency_seeds"] = maxSeed
	for _, p := range []float64{0.1, 0.25, 0.5, 0.9} {
		for lo := int64(0); lo < maxSeed; lo += 256 {
			if !s.Take() {
				continue
			}
			c := &Case{Prop: "C08", Kind: "frequency", Params: M{"p": p, "seed_lo": lo, "seed_hi": lo + 256}}
			s.Evals += 256
			s.Begin(c)
			s.Report(c08CheckFrequency(c))
		}
	}
}

func c08Finalize(m *Merged) {
	tot := map[float64][]int{}
	n := map[float64]int{}
	for _, d := range m.ShardData {
		for k, v := range d {
			var p float64
			var lo int
			if _, err := fmt.Sscanf(k, "freq/%g/%d", &p, &lo); err != nil {
				continue
			}
			f := toInts(v)
			if tot[p] == nil {
				tot[p] = make([]int, 3)
			}
			for i := range f {
				tot[p][i] += f[i]
			}
			n[p] += 256
		}
	}
	freq := M{}
	for p, f := range tot {
		for i := range f {
			fr := float64(f[i]) / float64(n[p])
			freq[fmt.Sprintf("p=%v/pos=%d", p, i)] = fr
			if math.Abs(fr-p) > 0.03 {
				c := &Case{Prop: "C08", Kind: "frequency", Params: M{"p": p, "seed_lo": 0, "seed_hi": n[p]}}
				m.AddViolation(viol(c, "C08/frequency", "position %d with probability %v fired with frequency %.4f over seeds 0..%d", i, p, fr, n[p]))
			}
		}
	}
	m.Extra["observed_frequencies"] = freq
}
