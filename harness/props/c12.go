package props

import (
	"fmt"

	. "rdmverif/engine"
)

// C12 — aspect elimination ranks in reverse order of elimination (DESIGN.md 6.C12, A.5).

func init() {
	Register(&Property{
		ID: "C12", Level: "exploration",
		Rule: "E1: considered sets n<=4 (thorough 5) x criteria m=2 (and m=3 for n<=3, thorough n<=4) x values {0,1,2} full product (quick: n=4 every second level spec, n=3/m=3 values {0,1}) x gain/cost x weights {(2,1),(1,2),(1,1)} " +
			"x level specs {explicit increasing lists of 1-3 levels over {0.5,1.5,2.5} per criterion; generated multiplied/additive series over coef {0.25,0.5} x (min,max) in {(0,1),(0.25,0.75),(0,0.5)}} " +
			"x order {fixed; random under 5 constant scripts}. Oracle: reference walk (levels outer, criteria by weight desc, snapshot per (level,criterion), stop at one left) — " +
			"exact for fixed order and distinct weights, existential over alternative permutations in random mode, invariants only for equal weights. " +
			"distinct_nontrivial = distinct responses with at least one eliminated alternative.",
		Assume: []string{"survivors' mutual order and reported index are not fixed by the statement and are not compared",
			"ties between criterion weights are broken by the seeded generator: only the invariants are checked then"},
		Run:   c12Run,
		Check: c12Check,
	})
}

type aeCfg struct {
	N       int
	Vals    [][]float64
	Types   []string
	Weights []float64
	Spec    levelSpec
	Random  bool
	Ranges  bool // declare valuesRange [0,2]
	Extra   bool // one known, not considered alternative zz with value 3 on every criterion (widens the observed range)
	Reverse bool // choseToMake / knownAlternatives listed in descending id order
	Mixed   bool // only the LAST criterion declares its valuesRange [0,2]; the others are left to the observed range
	Narrow  bool // declare a valuesRange that the values exceed on the bad side: gain [1,2], cost [0,1] (values are in {0,1,2})
}

func critIDs(m int) []string {
	out := make([]string, m)
	for j := range out {
		out[j] = fmt.Sprintf("c%d", j+1)
	}
	return out
}

func aeRequest(cfg aeCfg) M {
	m := len(cfg.Types)
	cids := critIDs(m)
	var crits L
	w := M{}
	for j, id := range cids {
		if cfg.Mixed {
			if j == len(cids)-1 {
				crits = append(crits, critR(id, cfg.Types[j], 0, 2))
			} else {
				crits = append(crits, crit(id, cfg.Types[j]))
			}
		} else if cfg.Narrow && cfg.Types[j] == "cost" {
			crits = append(crits, critR(id, cfg.Types[j], 0, 1))
		} else if cfg.Narrow {
			crits = append(crits, critR(id, cfg.Types[j], 1, 2))
		} else if cfg.Ranges {
			crits = append(crits, critR(id, cfg.Types[j], 0, 2))
		} else {
			crits = append(crits, crit(id, cfg.Types[j]))
		}
		w[id] = cfg.Weights[j]
	}
	var ka L
	var chose []string
	for i := 0; i < cfg.N; i++ {
		cv := map[string]float64{}
		for j, id := range cids {
			cv[id] = cfg.Vals[i][j]
		}
		ka = append(ka, alt(ids6[i], cv))
		chose = append(chose, ids6[i])
	}
	if cfg.Reverse {
		for i, j := 0, len(chose)-1; i < j; i, j = i+1, j-1 {
			chose[i], chose[j] = chose[j], chose[i]
			ka[i], ka[j] = ka[j], ka[i]
		}
	}
	if cfg.Extra {
		cv := map[string]float64{}
		for _, id := range cids {
			cv[id] = 3
		}
		ka = append(ka, alt("zz", cv))
	}
	mp := M{"function": cfg.Spec.Fn, "params": cfg.Spec.params(), "weights": w, "randomSeed": 5}
	if cfg.Random {
		mp["randomAlternativesOrdering"] = true
	}
	return M{"preferenceFunction": "aspectEliminationHeuristic", "knownAlternatives": ka, "choseToMake": strs(chose), "criteria": crits, "methodParameters": mp}
}

type aeElim struct {
	ID    string
	Level int
	Crit  string
	Thr   float64
}

// aeWalk: reference elimination walk. critOrder = criteria heaviest first.
func aeWalk(order []string, vals map[string]map[string]float64, critOrder []critInfo, levels []map[string]float64) (elims []aeElim, survivors []string) {
	remaining := append([]string{}, order...)
	if len(remaining) <= 1 {
		return nil, remaining
	}
	for li, t := range levels {
		for _, c := range critOrder {
			snapshot := append([]string{}, remaining...)
			for _, a := range snapshot {
				sg := 1.0
				if c.Cost {
					sg = -1
				}
				if sg*vals[a][c.ID] < sg*t[c.ID] {
					for i, x := range remaining {
						if x == a {
							remaining = append(remaining[:i:i], remaining[i+1:]...)
							break
						}
					}
					elims = append(elims, aeElim{a, li, c.ID, t[c.ID]})
				}
				if len(remaining) <= 1 {
					return elims, remaining
				}
			}
		}
	}
	return elims, remaining
}

func aeMatches(resp *Response, elims []aeElim, survivors []string) bool {
	if len(resp.Result) != len(elims)+len(survivors) {
		return false
	}
	var got []string
	for _, e := range resp.Result[:len(survivors)] {
		got = append(got, e.Alternative.ID)
		if len(asM(e.Evaluation["notSatisfiedThreshold"])) != 0 {
			return false // a survivor must not be reported as having failed a check
		}
	}
	if !sameSet(got, survivors) {
		return false
	}
	for k, e := range resp.Result[len(survivors):] {
		x := elims[len(elims)-1-k]
		if e.Alternative.ID != x.ID || int(asF(e.Evaluation["thresholdsIndex"])) != x.Level {
			return false
		}
		if !sameThresholds(asM(e.Evaluation["notSatisfiedThreshold"]), map[string]float64{x.Crit: x.Thr}) {
			return false
		}
	}
	return true
}

func c12Check(c *Case) []Violation {
	if c.Kind == "seeded-order" {
		return seededOrderRepeatable(c, "C12")
	}
	req := asM(roundTrip(c.Req))
	out := Decide(J(c.Req), scriptFromCase(c))
	if !out.Accepted {
		return []Violation{viol(c, "C12/rejected", "valid aspect-elimination request rejected: %s", out.Err)}
	}
	resp, err := ParseResponse(out.Body)
	if err != nil {
		return []Violation{viol(c, "C12/unparsable", "%v", err)}
	}
	return aeOracle(c, req, resp)
}

func aeOracle(c *Case, req M, resp *Response) []Violation {
	var vs []Violation
	crits := critInfos(req)
	mp := asM(req["methodParameters"])
	spec := specFromReq(req)
	exactLevels = spec.Fn == "thresholds"
	levels, ok := refLevels(true, spec, crits)
	if !ok {
		return []Violation{viol(c, "C12/accepted-invalid-levels", "request with invalid level parameters %v was answered", spec)}
	}
	vals := map[string]map[string]float64{}
	for _, e := range resp.Result {
		vals[e.Alternative.ID] = e.Alternative.Criteria
	}
	weights := map[string]float64{}
	for k, v := range asM(mp["weights"]) {
		weights[k] = asF(v)
	}
	distinct := true
	for i := range crits {
		for j := i + 1; j < len(crits); j++ {
			if weights[crits[i].ID] == weights[crits[j].ID] {
				distinct = false
			}
		}
	}
	random, _ := mp["randomAlternativesOrdering"].(bool)
	chose := toStrings(req["choseToMake"])
	cinfo := map[string]critInfo{}
	for _, ci := range crits {
		cinfo[ci.ID] = ci
	}
	// T1 invariants on every entry that reports a failed threshold
	seenSurvivorEnd := false
	eliminated := 0
	for i, e := range resp.Result {
		th := asM(e.Evaluation["notSatisfiedThreshold"])
		if len(th) == 0 {
			if seenSurvivorEnd {
				vs = append(vs, viol(c, "C12/survivor-below-eliminated", "entry %s (position %d) reports no failed threshold but is ranked below an eliminated alternative", e.Alternative.ID, i))
			}
			continue
		}
		seenSurvivorEnd = true
		eliminated++
		idx := int(asF(e.Evaluation["thresholdsIndex"]))
		if len(th) != 1 || idx < 0 || idx >= len(levels) {
			vs = append(vs, viol(c, "C12/report-shape", "entry %s reports thresholds %v at index %d (levels: %d)", e.Alternative.ID, th, idx, len(levels)))
			continue
		}
		for cid, tv := range th {
			ci, known := cinfo[cid]
			t := asF(tv)
			if !known || !levelEq(t, levels[idx][cid]) {
				vs = append(vs, viol(c, "C12/threshold-value", "entry %s reports threshold %s=%v at level %d, the level's threshold is %v", e.Alternative.ID, cid, t, idx, levels[idx][cid]))
				continue
			}
			sg := 1.0
			if ci.Cost {
				sg = -1
			}
			if !(sg*vals[e.Alternative.ID][cid] < sg*t) {
				vs = append(vs, viol(c, "C12/not-actually-failed", "entry %s (value %v) is not worse than the threshold %s=%v it reports as failed", e.Alternative.ID, vals[e.Alternative.ID][cid], cid, t))
			}
			// passed every check of every earlier level
			for li := 0; li < idx; li++ {
				for _, cj := range crits {
					sj := 1.0
					if cj.Cost {
						sj = -1
					}
					if sj*vals[e.Alternative.ID][cj.ID] < sj*levels[li][cj.ID] {
						vs = append(vs, viol(c, "C12/failed-earlier-check", "entry %s reports failing level %d but already fails level %d on %s", e.Alternative.ID, idx, li, cj.ID))
					}
				}
			}
		}
		// reverse order of elimination: level indices are non-increasing downwards... i.e. non-decreasing upwards
		if i+1 < len(resp.Result) {
			nidx := int(asF(resp.Result[i+1].Evaluation["thresholdsIndex"]))
			if nidx > idx {
				vs = append(vs, viol(c, "C12/order-by-level", "entry %s eliminated at level %d is ranked above %s eliminated at the later level %d", e.Alternative.ID, idx, resp.Result[i+1].Alternative.ID, nidx))
			}
		}
	}
	if cur != nil {
		cur.Outcome(eliminated >= 1, resp.Result)
	}
	if !distinct {
		return vs
	}
	// T2
	critOrder := append([]critInfo{}, crits...)
	for i := 0; i < len(critOrder); i++ {
		for j := i + 1; j < len(critOrder); j++ {
			if weights[critOrder[j].ID] > weights[critOrder[i].ID] {
				critOrder[i], critOrder[j] = critOrder[j], critOrder[i]
			}
		}
	}
	match := false
	if !random {
		el, sv := aeWalk(chose, vals, critOrder, levels)
		match = aeMatches(resp, el, sv)
	} else {
		Permutations(len(chose), func(p []int) {
			if match {
				return
			}
			el, sv := aeWalk(permute(chose, p), vals, critOrder, levels)
			if aeMatches(resp, el, sv) {
				match = true
			}
		})
	}
	if !match {
		var got []string
		for _, e := range resp.Result {
			got = append(got, fmt.Sprintf("%s(%v|%v)", e.Alternative.ID, e.Evaluation["thresholdsIndex"], e.Evaluation["notSatisfiedThreshold"]))
		}
		sig := "C12/walk"
		if random {
			sig = "C12/walk-random-order"
		}
		vs = append(vs, viol(c, sig, "response %v is not survivors + reverse elimination order of the reference walk (levels %v)", got, levels))
	}
	return vs
}

func incLists(cids []string) []levelSpec {
	grid := []float64{0.5, 1.5, 2.5}
	var seqs [][]float64
	for m := 1; m < 8; m++ {
		var s []float64
		for i, g := range grid {
			if m&(1<<uint(i)) != 0 {
				s = append(s, g)
			}
		}
		seqs = append(seqs, s)
	}
	seqs = append(seqs, []float64{0.5, 1.5, 1.5, 2.5}, []float64{1.5, 1.5})  // a level repeated: still a level of its own
	seqs = append(seqs, []float64{0.5000000049, 1.5000000051, 2.4999999949}) // more decimals than any rounding keeps
	var out []levelSpec
	// per-criterion increasing sequences of equal length (full product for 2 criteria, diagonal + shifted for 3)
	for _, a := range seqs {
		for _, b := range seqs {
			if len(a) != len(b) {
				continue
			}
			var ex []map[string]float64
			for i := range a {
				m := map[string]float64{}
				for j, id := range cids {
					if j%2 == 0 {
						m[id] = a[i]
					} else {
						m[id] = b[i]
					}
				}
				ex = append(ex, m)
			}
			out = append(out, levelSpec{Fn: "thresholds", Explicit: ex})
		}
	}
	// lists with a plateau (two consecutive identical levels) before a higher level
	for _, seq := range [][]float64{{0.5, 0.5, 1.5}, {1.5, 1.5, 2.5, 2.5}} {
		var ex []map[string]float64
		for _, v := range seq {
			m := map[string]float64{}
			for _, id := range cids {
				m[id] = v
			}
			ex = append(ex, m)
		}
		out = append(out, levelSpec{Fn: "thresholds", Explicit: ex})
	}
	return out
}

func genSpecs(increasing bool) []levelSpec {
	var out []levelSpec
	fns := []string{"idealMultipliedCoefficient", "idealAdditiveCoefficient"}
	mm := [][2]float64{{0, 1}, {0.25, 0.75}, {0, 0.5}}
	if !increasing {
		fns = []string{"idealMultipliedCoefficient", "idealSubtractiveCoefficient"}
		mm = [][2]float64{{0.25, 1}, {0.25, 0.75}, {0.5, 1}}
	}
	for _, fn := range fns {
		for _, coef := range []float64{0.25, 0.5} {
			for _, m := range mm {
				out = append(out, levelSpec{Fn: fn, Coef: coef, Min: m[0], Max: m[1]})
				if m[0] == 0 && coef == 0.5 {
					// the same series with minValue left to its default, listed right after series that set it
					out = append(out, levelSpec{Fn: fn, Coef: coef, Min: m[0], Max: m[1], OmitMin: true})
				}
			}
		}
	}
	return out
}

func aeEnumerate(s *Shard, prop string, fn func(c *Case)) {
	type grid struct {
		n, m     int
		levels   []float64
		specStep int
	}
	l3, l2 := []float64{0, 1, 2}, []float64{0, 1}
	grids := []grid{{1, 2, l3, 1}, {2, 2, l3, 1}, {3, 2, l3, 1}, {4, 2, l3, 2}, {2, 3, l3, 1}, {3, 3, l2, 1}}
	if !quick(s) {
		grids = []grid{{1, 2, l3, 1}, {2, 2, l3, 1}, {3, 2, l3, 1}, {4, 2, l3, 1}, {2, 3, l3, 1}, {3, 3, l3, 1}, {5, 2, l3, 3}, {4, 3, l2, 1}}
	}
	for _, g := range grids {
		levels := g.levels
		cids := critIDs(g.m)
		specs := append(incLists(cids), genSpecs(true)...)
		typeSets := [][]string{{"", "gain"}, {"gain", "cost"}}
		if g.n <= 2 {
			typeSets = append(typeSets, []string{"cost", "gain"}) // a gain criterion listed after a cost criterion
		}
		ws := [][]float64{{2, 1}, {1, 2}, {1, 1}}
		if g.n <= 2 {
			// distinct weights closer than any tolerance used elsewhere in the library, and weights at the 1e-7 scale
			ws = append(ws, []float64{0.5, 0.5000005}, []float64{0.5000005, 0.5}, []float64{3e-7, 1e-7}, []float64{1e-7, 3e-7})
		}
		if g.m == 3 {
			typeSets = [][]string{{"gain", "gain", "gain"}, {"cost", "gain", "cost"}}
			ws = [][]float64{{3, 2, 1}, {1, 3, 2}, {2, 1, 3}, {1, 1, 2}}
		}
		dims := make([]int, g.n*g.m)
		for i := range dims {
			dims[i] = len(levels)
		}
		Product(dims, func(idx []int) {
			if !s.Take() {
				return
			}
			vals := make([][]float64, g.n)
			for i := range vals {
				vals[i] = make([]float64, g.m)
				for j := range vals[i] {
					vals[i][j] = levels[idx[i*g.m+j]]
				}
			}
			for _, types := range typeSets {
				for _, w := range ws {
					for si, spec := range specs {
						if si%g.specStep != 0 || (liteEnum && si%3 != 0) {
							continue
						}
						cfg := aeCfg{N: g.n, Vals: vals, Types: types, Weights: w, Spec: spec}
						if spec.Fn != "thresholds" {
							cfg.Ranges = si%2 == 0
							cfg.Extra = si%3 == 0
							if si%4 == 1 {
								// first criterion strictly negative for every known alternative, range observed
								nv := make([][]float64, len(vals))
								for i := range vals {
									nv[i] = append([]float64{vals[i][0] - 3}, vals[i][1:]...)
								}
								cfg.Vals, cfg.Ranges, cfg.Extra = nv, false, false
							}
						}
						fn(&Case{Prop: prop, Kind: "aspect", Req: aeRequest(cfg)})
						if spec.Fn != "thresholds" && g.n <= 3 && si%2 == 1 {
							mc := cfg
							mc.Mixed, mc.Ranges = true, false
							fn(&Case{Prop: prop, Kind: "aspect", Req: aeRequest(mc)})
						}
						if cfg.Extra && g.n <= 3 {
							// the never-considered alternative that widens the observed range has an id that sorts FIRST
							fn(&Case{Prop: prop, Kind: "aspect", Req: renameIDs(aeRequest(cfg), map[string]string{"zz": "0a"})})
						}
						if g.n >= 2 && g.n <= 3 && g.m == 2 && si%2 == 0 {
							// the declared scale is narrower than the values: alternatives beyond its bad end
							nc := cfg
							nc.Narrow, nc.Extra = true, false
							fn(&Case{Prop: prop, Kind: "aspect", Req: aeRequest(nc)})
						}
						if g.n == 3 && si%2 == 1 {
							rc := cfg
							rc.Reverse = true
							fn(&Case{Prop: prop, Kind: "aspect", Req: aeRequest(rc)})
							fn(&Case{Prop: prop, Kind: "aspect", Req: reverseChose(aeRequest(cfg))}) // choseToMake against the catalogue order
						}
						if g.n >= 2 && g.n <= 3 && g.m == 2 && si%4 == 0 {
							for _, k := range []float64{0, 0.5, 1 - 1.0/(1<<53)} {
								cfg.Random = true
								fn(&Case{Prop: prop, Kind: "aspect", Req: aeRequest(cfg), Script: []float64{}, Params: M{"script_default": k}})
							}
						}
					}
				}
			}
		})
	}
}

// longSeries: generated series of more than a thousand levels (slow coefficients), alternatives that pass / fail late.
func longSeries(increasing bool) []levelSpec {
	if increasing {
		return []levelSpec{{Fn: "idealMultipliedCoefficient", Coef: 0.999, Min: 0.3, Max: 1}, {Fn: "idealAdditiveCoefficient", Coef: 0.0005, Min: 0.2, Max: 1}}
	}
	return []levelSpec{{Fn: "idealMultipliedCoefficient", Coef: 0.999, Min: 0.3, Max: 1}, {Fn: "idealSubtractiveCoefficient", Coef: 0.0005, Min: 0.2, Max: 1}}
}

func aeLong(s *Shard, prop string, fn func(c *Case)) {
	lv := []float64{0.5, 1, 2.9}
	for _, spec := range longSeries(true) {
		for _, typ := range []string{"gain", "cost"} {
			Product([]int{3, 3, 3}, func(idx []int) {
				if !s.Take() {
					return
				}
				vals := [][]float64{{lv[idx[0]], 3}, {lv[idx[1]], 3}, {lv[idx[2]], 3}} // the second criterion never decides (everybody at its best value)
				cfg := aeCfg{N: 3, Vals: vals, Types: []string{typ, "gain"}, Weights: []float64{2, 1}, Spec: spec, Extra: true}
				fn(&Case{Prop: prop, Kind: "aspect", Req: aeRequest(cfg)})
			})
		}
	}
}

// aeWide: 14 and 23 criteria (ids c1..c23: "c10" sorts before "c2"), pairwise distinct weights declared in a scrambled
// order, gain and cost alternating; the walk checks the criteria heaviest first, so the order of 14+ weights decides.
func aeWide(s *Shard, prop string, fn func(c *Case)) {
	for _, m := range []int{14, 23} {
		cids := critIDs(m)
		specs := append(incLists(cids), levelSpec{Fn: "idealAdditiveCoefficient", Coef: 0.25, Min: 0, Max: 1}, levelSpec{Fn: "idealMultipliedCoefficient", Coef: 0.5, Min: 0.25, Max: 1})
		types := make([]string, m)
		w := make([]float64, m)
		for j := range types {
			types[j] = []string{"gain", "cost"}[j%2]
			w[j] = float64((j*5)%m+1) / 4
		}
		for pat := 0; pat < 6; pat++ {
			for si, spec := range specs {
				if !s.Take() {
					continue
				}
				vals := make([][]float64, 3)
				for i := range vals {
					vals[i] = make([]float64, m)
					for j := range vals[i] {
						vals[i][j] = float64((i*(pat+1) + j*(pat%3+1)) % 3)
					}
				}
				cfg := aeCfg{N: 3, Vals: vals, Types: types, Weights: w, Spec: spec, Extra: si%2 == 0 && spec.Fn != "thresholds"}
				fn(&Case{Prop: prop, Kind: "aspect", Req: aeRequest(cfg)})
			}
		}
	}
}

// aeDegenerate: one criterion has the same value for every known alternative (zero-width observed range), generated
// series with decimal coefficients (level fractions 0.1, 0.2, 0.3 ... are not exact in binary): every level's threshold
// on that criterion is the value itself, nobody is ever worse than it.
func aeDegenerate(s *Shard, prop string, fn func(c *Case)) {
	specs := []levelSpec{{Fn: "idealAdditiveCoefficient", Coef: 0.1, Min: 0, Max: 1}, {Fn: "idealAdditiveCoefficient", Coef: 0.2, Min: 0.1, Max: 0.9},
		{Fn: "idealMultipliedCoefficient", Coef: 0.3, Min: 0.1, Max: 1}, {Fn: "idealMultipliedCoefficient", Coef: 0.7, Min: 0.05, Max: 0.95}}
	for _, same := range []float64{3, 7, 7.3, 0.1, -2.2, 1e9 + 0.3} {
		for _, spec := range specs {
			for _, types := range [][]string{{"gain", "gain"}, {"gain", "cost"}, {"cost", "gain"}} {
				Product([]int{4, 4, 4}, func(idx []int) {
					if !s.Take() {
						return
					}
					lv := []float64{0.5, 1.7, 2.9, 2.85} // 2.85: inside the last tenth of the range, decided by the last level only
					vals := [][]float64{{lv[idx[0]], same}, {lv[idx[1]], same}, {lv[idx[2]], same}}
					for _, w := range [][]float64{{2, 1}, {1, 2}} {
						cfg := aeCfg{N: 3, Vals: vals, Types: types, Weights: w, Spec: spec}
						fn(&Case{Prop: prop, Kind: "aspect", Req: aeRequest(cfg)})
					}
				})
			}
		}
	}
}

// aeRelatedIDs: a criterion id that is another criterion id followed by a digit (c1 / c11, k / k1), twelve explicit levels,
// one alternative failing the longer id at level 1 and one failing the shorter id at level 11 (id and level index spell the
// same string); every listing of the three alternatives, both weight orders.
func aeRelatedIDs(s *Shard, prop string, fn func(c *Case)) {
	for _, ids := range [][]string{{"c1", "c11"}, {"k", "k1"}, {"1", "11"}} {
		for _, w := range [][]float64{{1, 2}, {2, 1}} {
			for _, order := range [][]int{{0, 1, 2}, {1, 0, 2}, {2, 1, 0}, {1, 2, 0}} {
				if !s.Take() {
					continue
				}
				alts := []string{"a", "b", "c"}
				vals := [][]float64{{100, 0.5}, {10.5, 100}, {100, 100}}
				var la []string
				var lv [][]float64
				for _, o := range order {
					la, lv = append(la, alts[o]), append(lv, vals[o])
				}
				var ths L
				for k := 0; k < 12; k++ {
					ths = append(ths, M{ids[0]: float64(k), ids[1]: float64(k)})
				}
				r := genericRequest("aspectEliminationHeuristic", ids, -1, la, lv, la, w)
				r = withMP(r, M{"function": "thresholds", "params": M{"thresholds": ths}})
				fn(&Case{Prop: prop, Kind: "aspect", Req: r})
			}
		}
	}
}

func c12Run(s *Shard) {
	cur = s
	majoritySample := 0
	aeRelatedIDs(s, "C12", func(c *Case) {
		s.Evals++
		s.Begin(c)
		s.Report(c12Check(c))
	})
	aeDegenerate(s, "C12", func(c *Case) {
		s.Evals++
		s.Begin(c)
		s.Report(c12Check(c))
	})
	aeWide(s, "C12", func(c *Case) {
		s.Evals++
		s.Begin(c)
		s.Report(c12Check(c))
	})
	seededOrderCases(s, "C12", "aspectEliminationHeuristic", func(c *Case) {
		s.Evals += 4
		s.Begin(c)
		s.Report(c12Check(c))
	})
	// 13 and more alternatives
	for _, n := range manySizes {
		for pat := 0; pat < 4; pat++ {
			for _, ths := range []L{{M{"c1": 0.5, "c2": 1.5}, M{"c1": 1.5, "c2": 0.5}}, {M{"c1": 0.5, "c2": 2.5}, M{"c1": 1.5, "c2": 1.5}, M{"c1": 2.5, "c2": 0.5}}} {
				for _, w := range []M{{"c1": 2.0, "c2": 1.0}, {"c1": 1.0, "c2": 2.0}} {
					if !s.Take() {
						continue
					}
					mp := M{"function": "thresholds", "params": M{"thresholds": ths}, "weights": w, "randomSeed": 5}
					c := &Case{Prop: "C12", Kind: "aspect", Req: manyAlternatives("aspectEliminationHeuristic", n, pat, mp)}
					s.Evals++
					s.Begin(c)
					s.Report(c12Check(c))
				}
			}
		}
	}
	aeLong(s, "C12", func(c *Case) {
		s.Evals++
		s.Begin(c)
		s.Report(c12Check(c))
	})
	aeEnumerate(s, "C12", func(c *Case) {
		s.Evals++
		s.Begin(c)
		s.Report(c12Check(c))
		if majoritySample < 1 && s.Evals%5000 == 77 {
			s.Sample(M{"request": c.Req})
			majoritySample++
		}
	})
}
