package props

import (
	"fmt"
	"math"

	. "rdmverif/engine"
	"rdmverif/svc"
)

// C17 — fatigue blurs every value by at most the fatigue ratio (DESIGN.md 6.C17, A.10).

func init() {
	Register(&Property{
		ID: "C17", Level: "exploration",
		Rule: "E1: 7 methods x {considered = known, subset} x {root values incl. negative ones, after each core bias} x ratio function {const -0.5,0,0.125,1; expFromZero (alpha,mult,q) in {(0,1,3),(1,1,0),(0.5,2,1),(0.25,-1,2)}} " +
			"x bounding {off, scaling 1, 0.5, 2} x non-negative {f,t} x declared/observed range x generator: constant scripts u in {0,0.25,0.5,0.75,1-ulp} (exact oracle v+s*u*f*v with s=-1 iff u>=0.5), " +
			"alternating scripts (relational oracle |v'-v|<=|f*v| before bounding) and real seeds 0..255 (both signs must occur). " +
			"Oracle: f formula, exact values, raise-to-0 then clip into the range scaled about its centre, all known alternatives, criteria/parameters untouched, report = f + exactly the values handed on. " +
			"distinct_nontrivial = distinct (start state, options, script) where at least one value changed.",
		Assume: []string{"with a constant script the value and the sign stream deliver the same constant, so the sign is determined by u>=0.5; the order in which streams are consumed does not matter then"},
		Run:    c17Run,
		Check:  c17Check,
	})
}

func fatigueRatioRef(p map[string]interface{}) float64 {
	fp := asM(p["params"])
	if asS(p["function"]) == "const" {
		return asF(fp["value"])
	}
	return asF(fp["multiplier"]) * (math.Exp(asF(fp["alpha"])*asF(fp["queryNumber"])) - 1)
}

func c17Check(c *Case) []Violation {
	req := asM(roundTrip(c.Req))
	bs := asL(req["biases"])
	props := asM(asM(bs[len(bs)-1])["props"])
	var script *svc.Script
	mode := asS(c.Params["mode"])
	u := asF(c.Params["u"])
	switch mode {
	case "const":
		script = ConstScript(u)
	case "alternating":
		i := 0
		seq := []float64{0.1, 0.9, 0.6, 0.3, 0.99, 0.0, 0.5}
		script = &svc.Script{Answer: func(int, int64, int) float64 { i++; return seq[i%len(seq)] }}
	}
	t := lastTransition(req, script)
	if t.err != nil {
		if t.failAt >= 0 && t.failAt < len(bs)-1 {
			stat("prefix_failed(C07's subject)")
			return nil
		}
		return []Violation{viol(c, "C17/rejected", "fatigue failed: %v", t.err)}
	}
	var vs []Violation
	vs = append(vs, alteredReport(c, "C17", "fatigue", t, bs)...)
	prev, next := t.prev, t.next
	if mode == "real" {
		// "a seeded u, a seeded sign": with the library's own generators the same request is blurred the same way again
		for k := 0; k < 2; k++ {
			t2 := lastTransition(req, script)
			if t2.err != nil || t2.next.Canon() != next.Canon() {
				vs = append(vs, viol(c, "C17/not-a-function-of-the-seed", "the same request (randomSeed %v) is blurred differently when it is applied again: %v vs %v", props["randomSeed"], t2.next.Canon(), next.Canon()))
				break
			}
		}
	}
	if _, has := t.props["effectiveFatigueRatio"]; !has {
		vs = append(vs, viol(c, "C17/ratio-not-reported", "the report carries no effectiveFatigueRatio (keys %v)", mapKeys(t.props)))
	}
	f := asF(t.props["effectiveFatigueRatio"])
	if !near(f, fatigueRatioRef(props)) {
		vs = append(vs, viol(c, "C17/ratio", "effectiveFatigueRatio %v, expected %v", f, fatigueRatioRef(props)))
	}
	scaling, nonneg := boundingOf(props)
	changed := false
	pos, neg := 0, 0
	for _, a := range prev.All() {
		nv := prevValues(next, a.ID)
		if nv == nil {
			vs = append(vs, viol(c, "C17/alternative-missing", "alternative %s disappeared", a.ID))
			continue
		}
		for _, cr := range prev.Criteria {
			v := a.Values[cr.ID]
			got, ok := nv[cr.ID]
			if !ok {
				vs = append(vs, viol(c, "C17/value-missing", "alternative %s lost its value for %s", a.ID, cr.ID))
				continue
			}
			if got != v {
				changed = true
			}
			if got > v {
				pos++
			}
			if got < v {
				neg++
			}
			lo, hi := prev.Range(cr)
			switch mode {
			case "const":
				sg := 1.0
				if u >= 0.5 {
					sg = -1
				}
				want := boundRef(v+(v*u*f)*sg, lo, hi, scaling, nonneg)
				if !near(got, want) {
					vs = append(vs, viol(c, "C17/value", "alternative %s criterion %s: %v became %v, expected bound(v + s*u*f*v) = %v (u=%v f=%v range [%v,%v] scaling %v nonneg %v)", a.ID, cr.ID, v, got, want, u, f, lo, hi, scaling, nonneg))
				}
			default:
				// relational: the bounded value lies between bound(v-|f v|) and bound(v+|f v|)
				d := math.Abs(f * v)
				l, h := boundRef(v-d, lo, hi, scaling, nonneg), boundRef(v+d, lo, hi, scaling, nonneg)
				if got < l-1e-9 || got > h+1e-9 {
					vs = append(vs, viol(c, "C17/blur-bound", "alternative %s criterion %s: %v became %v, outside bound(v -/+ |f*v|) = [%v,%v] (f=%v)", a.ID, cr.ID, v, got, l, h, f))
				}
			}
			if f == 0 && got != boundRef(v, lo, hi, scaling, nonneg) {
				vs = append(vs, viol(c, "C17/f0-not-identity", "f=0 but %s.%s changed from %v to %v", a.ID, cr.ID, v, got))
			}
		}
	}
	if !critsEqual(prev.Criteria, next.Criteria) || prev.Params != next.Params {
		vs = append(vs, viol(c, "C17/criteria-or-params-changed", "criteria or method parameters changed by fatigue"))
	}
	if !sameStrings(altIDs(prev.Considered), altIDs(next.Considered)) || !sameStrings(altIDs(prev.NotConsidered), altIDs(next.NotConsidered)) {
		vs = append(vs, viol(c, "C17/split-changed", "considered/not considered changed"))
	}
	// report carries exactly the values handed on
	for _, pair := range []struct {
		key  string
		alts []StateAlt
	}{{"consideredAlternatives", next.Considered}, {"notConsideredAlternatives", next.NotConsidered}} {
		rl := asL(t.props[pair.key])
		if len(rl) != len(pair.alts) {
			vs = append(vs, viol(c, "C17/report", "report %s lists %d alternatives, %d were handed on", pair.key, len(rl), len(pair.alts)))
			continue
		}
		for i, ra := range rl {
			rm := asM(ra)
			if asS(rm["id"]) != pair.alts[i].ID {
				vs = append(vs, viol(c, "C17/report", "report %s[%d] is %v, handed on %s", pair.key, i, rm["id"], pair.alts[i].ID))
				continue
			}
			rc := asM(rm["criteria"])
			for k, v := range pair.alts[i].Values {
				if rv, ok := rc[k]; !ok || asF(rv) != v {
					vs = append(vs, viol(c, "C17/report", "report says %s.%s = %v, handed on %v", pair.alts[i].ID, k, rc[k], v))
				}
			}
		}
	}
	if cur != nil {
		cur.Outcome(changed, prev.Canon(), fmt.Sprint(props), mode, u)
		if mode == "real" {
			key := fmt.Sprintf("signs/%s", asS(c.Params["group"]))
			old, _ := cur.Data[key].([]int)
			if old == nil {
				old = []int{0, 0}
			}
			old[0] += pos
			old[1] += neg
			cur.Data[key] = old
		}
	}
	return vs
}

func c17Run(s *Shard) {
	cur = s
	type fn struct{ p M }
	fns := []M{
		{"function": "const", "params": M{"value": 0.125}},
		{"function": "const", "params": M{"value": 0.0}},
		{"function": "const", "params": M{"value": 1.0}},
		{"function": "const", "params": M{"value": -0.5}},
		{"function": "expFromZero", "params": M{"alpha": 0.0, "multiplier": 1.0, "queryNumber": 3}},
		{"function": "expFromZero", "params": M{"alpha": 1.0, "multiplier": 1.0, "queryNumber": 0}},
		{"function": "expFromZero", "params": M{"alpha": 0.5, "multiplier": 2.0, "queryNumber": 1}},
		{"function": "expFromZero", "params": M{"alpha": 0.25, "multiplier": -1.0, "queryNumber": 2}},
		{"function": "expFromZero", "params": M{"alpha": 0.4, "multiplier": 0.0, "queryNumber": 3}},
		{"function": "expFromZero", "params": M{"alpha": 0.4, "queryNumber": 3}},
		{"function": "expFromZero", "params": M{"alpha": 0.5, "multiplier": 1.0, "queryNumber": -2}}, // any parameters: f = e^-1 - 1 < 0
		{"function": "expFromZero", "params": M{"alpha": -0.5, "multiplier": 2.0, "queryNumber": 2}},
	}
	bounds := []M{{}, {"allowedValuesRangeScaling": 1.0}, {"allowedValuesRangeScaling": 0.5}, {"allowedValuesRangeScaling": 2.0},
		{"disallowNegativeValues": true}, {"allowedValuesRangeScaling": 0.5, "disallowNegativeValues": true}, {"allowedValuesRangeScaling": 2.0, "disallowNegativeValues": true},
		{"allowedValuesRangeScaling": -2.0}, {"allowedValuesRangeScaling": -0.5, "disallowNegativeValues": true}, // any negative factor means "no limits"
		{"allowedValuesRangeScaling": 1.0, "disallowNegativeValues": true}} // exactly the criterion's own range, and nothing below zero
	us := []float64{0, 0.25, 0.5, 0.75, 1 - 1.0/(1<<53)}
	prefixes := [][]M{nil}
	for _, b := range biasAlphabet(0) {
		prefixes = append(prefixes, []M{b})
	}
	prefixes = append(prefixes, ownPrefixes(bias("fatigue", M{"function": "const", "params": M{"value": 0.5}, "randomSeed": 8}))...)
	sampled := false
	for _, method := range allMethods {
		for _, subset := range []bool{false, true} {
			for _, variant := range []int{0, 1, 2, 3, 4, 5, 6, 7} { // 7 declared ranges reaching below zero; 0 observed range, 1 declared range, 2 negative values, 3 one criterion with a single value, 4 never-considered alternatives beyond both ends, 5 values with many decimals / at the 1e-9 scale
				root := rootRequest(method, subset, variant == 1 || variant == 7)
				if variant == 7 {
					for _, cr := range asL(root["criteria"]) {
						asM(cr)["valuesRange"] = M{"min": -10.0, "max": 10.0}
					}
				}
				if variant == 2 {
					root = negativeVariant(root) // c1 strictly negative for every known alternative
					for _, a := range asL(root["knownAlternatives"]) {
						cm := asM(asM(a)["criteria"])
						cm["c2"] = asF(cm["c2"]) - 2 // c2 straddles zero
					}
				}
				if variant == 3 {
					for _, a := range asL(root["knownAlternatives"]) {
						asM(asM(a)["criteria"])["c3"] = 2.0
					}
				}
				if variant == 4 {
					root = wideVariant(root)
				}
				if variant == 6 {
					if method == "choquetIntegral" {
						continue
					}
					root = typelessVariant(root)
				}
				if variant == 5 {
					root = tinyVariant(root) // c3 at the 1e-9 scale
					for _, a := range asL(root["knownAlternatives"]) {
						cm := asM(asM(a)["criteria"])
						cm["c1"] = asF(cm["c1"]) / 3 // thirds: more decimals than any rounding keeps
					}
				}
				for pi, pre := range prefixes {
					if variant >= 2 && pi > 0 {
						continue
					}
					if !s.Take() {
						continue
					}
					for _, f := range fns {
						for _, b := range bounds {
							p := M{"randomSeed": 5}
							for k, v := range f {
								p[k] = v
							}
							for k, v := range b {
								p[k] = v
							}
							req := withBiases(root, append(append([]M{}, pre...), bias("fatigue", p)))
							for _, u := range us {
								c := &Case{Prop: "C17", Kind: "fatigue", Req: req, Params: M{"mode": "const", "u": u}}
								s.Evals++
								s.Begin(c)
								s.Report(c17Check(c))
							}
							c := &Case{Prop: "C17", Kind: "fatigue", Req: req, Params: M{"mode": "alternating"}}
							s.Evals++
							s.Begin(c)
							s.Report(c17Check(c))
							if !sampled && len(pre) == 1 {
								s.Sample(M{"request": req, "script": "constant u=0.25"})
								sampled = true
							}
						}
					}
				}
			}
		}
	}
	// real seeds: both directions occur; seed 256 stands for "left out", 257.. for negative seeds
	for seed := 0; seed < 260; seed++ {
		if !s.Take() {
			continue
		}
		root := rootRequest("weightedSum", true, false)
		fp := M{"function": "const", "params": M{"value": 0.25}, "randomSeed": seed}
		if seed == 256 {
			delete(fp, "randomSeed")
		} else if seed > 256 {
			fp["randomSeed"] = 256 - seed
		}
		req := withBiases(root, []M{bias("fatigue", fp)})
		c := &Case{Prop: "C17", Kind: "fatigue", Req: req, Params: M{"mode": "real", "group": "all"}}
		s.Evals++
		s.Begin(c)
		s.Report(c17Check(c))
	}
}

func init() {
	Registry["C17"].Finalize = func(m *Merged) {
		pos, neg := 0, 0
		for _, d := range m.ShardData {
			if v, ok := d["signs/all"]; ok {
				x := toInts(v)
				pos += x[0]
				neg += x[1]
			}
		}
		m.Extra["real_seed_moves_up"] = pos
		m.Extra["real_seed_moves_down"] = neg
		if pos == 0 || neg == 0 {
			root := rootRequest("weightedSum", true, false)
			req := withBiases(root, []M{bias("fatigue", M{"function": "const", "params": M{"value": 0.25}, "randomSeed": 0})})
			m.AddViolation(viol(&Case{Prop: "C17", Kind: "fatigue", Req: req, Params: M{"mode": "real", "group": "all"}}, "C17/one-sided-sign",
				"over real seeds 0..255 values moved up %d times and down %d times: the sign does not take both directions", pos, neg))
		}
	}
}
