package engine

// Product enumerates the full product of dims (mixed radix), calling fn with the index vector (reused).
func Product(dims []int, fn func(idx []int)) {
	idx := make([]int, len(dims))
	for _, d := range dims {
		if d == 0 {
			return
		}
	}
	for {
		fn(idx)
		i := len(dims) - 1
		for i >= 0 {
			idx[i]++
			if idx[i] < dims[i] {
				break
			}
			idx[i] = 0
			i--
		}
		if i < 0 {
			return
		}
	}
}

// Deviations enumerates every choice vector over menus (menu sizes) that differs from the all-zero default in at
// most d positions — the deviation-bounded exploration of option menus.
func Deviations(menus []int, d int, fn func(idx []int)) {
	idx := make([]int, len(menus))
	var rec func(start, left int)
	rec = func(start, left int) {
		fn(idx)
		if left == 0 {
			return
		}
		for i := start; i < len(menus); i++ {
			for v := 1; v < menus[i]; v++ {
				idx[i] = v
				rec(i+1, left-1)
			}
			idx[i] = 0
		}
	}
	rec(0, d)
}

// Permutations calls fn with every permutation of 0..n-1 (slice reused).
func Permutations(n int, fn func(p []int)) {
	p := make([]int, n)
	for i := range p {
		p[i] = i
	}
	var rec func(k int)
	rec = func(k int) {
		if k == n {
			fn(p)
			return
		}
		for i := k; i < n; i++ {
			p[k], p[i] = p[i], p[k]
			rec(k + 1)
			p[k], p[i] = p[i], p[k]
		}
	}
	rec(0)
}
