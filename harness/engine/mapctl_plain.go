//go:build !verif

package engine

func MapCtl(mode uint32, deviateAt int64, value uintptr) int64 { return 0 }
func MapHash0(v uint32)                                        {}

const MapControl = false
