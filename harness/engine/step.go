package engine

import (
	"encoding/json"
	"fmt"

	"github.com/Azbesciak/RealDecisionMaker/lib/model"
	"github.com/Azbesciak/RealDecisionMaker/lib/utils"

	"rdmverif/svc"
)

// Stepper applies the biases of a request one at a time through the exported API (the service's own registries),
// so that every intermediate DecisionMakingParams can be inspected (DESIGN.md 4.2).
type Stepper struct {
	DM       *model.DecisionMaker
	PF       *model.PreferenceFunction
	Listener *model.BiasListener
	Chosen   *model.BiasesWithProps
	Original *model.DecisionMakingParams
	Current  *model.DecisionMakingParams
	Reports  []interface{} // what each bias reported (nil when it did not fire)
	RepJSON  [][]byte      // the report serialised at the moment it was produced
	gen      utils.ValueGenerator
	next     int
}

func registries() (model.PreferenceFunctions, model.BiasListeners, *model.BiasMap, utils.SeededValueGenerator) {
	r := svc.Registry()
	return r[0].(model.PreferenceFunctions), r[1].(model.BiasListeners), r[2].(*model.BiasMap), r[3].(utils.SeededValueGenerator)
}

// NewStepper prepares the initial parameters exactly as MakeDecision does (exported pieces only).
func NewStepper(body []byte) (st *Stepper, err error) {
	defer func() {
		if e := recover(); e != nil {
			st, err = nil, fmt.Errorf("%v", e)
		}
	}()
	dm, derr := Decode(body)
	if derr != nil {
		return nil, derr
	}
	funcs, listeners, biases, seeded := registries()
	dm.Criteria.Validate()
	pf := funcs.Fetch(dm.PreferenceFunction)
	params := &model.DecisionMakingParams{
		NotConsideredAlternatives: *dm.NotConsideredAlternatives(),
		ConsideredAlternatives:    *dm.AlternativesToConsider(),
		Criteria:                  dm.Criteria,
		MethodParameters:          (*pf).ParseParams(dm),
	}
	chosen := model.ChooseBiases(biases, &dm.Biases)
	st = &Stepper{DM: dm, PF: pf, Chosen: chosen, Original: params, Current: params}
	if len(*chosen) > 0 {
		st.Listener = listeners.Fetch(dm.PreferenceFunction)
		st.gen = seeded(dm.BiasApplyRandomSeed)
	}
	return st, nil
}

func (st *Stepper) Done() bool { return st.next >= len(*st.Chosen) }

// Step applies the next chosen bias (with the activation draw, as the library's loop does).
func (st *Stepper) Step() (fired bool, err error) {
	defer func() {
		if e := recover(); e != nil {
			err = fmt.Errorf("%v", e)
		}
	}()
	h := (*st.Chosen)[st.next]
	st.next++
	if h.Props.ApplyProbability > st.gen() {
		res := (*h.Bias).Apply(st.Original, st.Current, &h.Props.Props, st.Listener)
		st.Current = res.DMP
		rep := *model.UpdateBiasesProps(h.Props, res.Props)
		st.Reports = append(st.Reports, rep)
		b, _ := json.Marshal(rep)
		st.RepJSON = append(st.RepJSON, b)
		return true, nil
	}
	rep := *model.UpdateBiasesProps(h.Props, nil)
	st.Reports = append(st.Reports, rep)
	b, _ := json.Marshal(rep)
	st.RepJSON = append(st.RepJSON, b)
	return false, nil
}

// ReportsStable re-serialises every report produced so far and compares it with its serialisation at the moment it was
// produced; it returns the index of the first report that a later stage altered.
func (st *Stepper) ReportsStable() (int, bool) {
	for i, r := range st.Reports {
		b, _ := json.Marshal(r)
		if string(b) != string(st.RepJSON[i]) {
			return i, false
		}
	}
	return -1, true
}

// Evaluate runs the method on the current state.
func (st *Stepper) Evaluate() (rk *model.AlternativesRanking, err error) {
	defer func() {
		if e := recover(); e != nil {
			err = fmt.Errorf("%v", e)
		}
	}()
	return (*st.PF).Evaluate(st.Current), nil
}

// AssembleResponse builds the response the service would give from the stepped run.
func (st *Stepper) AssembleResponse(rk *model.AlternativesRanking) []byte {
	reps := model.BiasesParams(st.Reports)
	if reps == nil {
		reps = model.BiasesParams{}
	}
	b, _ := json.Marshal(&model.DecisionMakerChoice{Result: *rk, Biases: reps})
	return b
}

// State is the structured, client-level view of a DecisionMakingParams.
type StateAlt struct {
	ID     string
	Values map[string]float64
}
type StateCrit struct {
	ID       string
	Cost     bool
	HasRange bool
	Lo, Hi   float64
}
type State struct {
	Criteria      []StateCrit
	Considered    []StateAlt
	NotConsidered []StateAlt
	Params        string            // canonical dump of the method parameters
	ParamLeaves   map[string]string // the method parameters flattened: path -> scalar
}

func StateOf(p *model.DecisionMakingParams) State {
	var s State
	for _, c := range p.Criteria {
		sc := StateCrit{ID: c.Id, Cost: c.Type == model.Cost}
		if c.ValuesRange != nil {
			sc.HasRange, sc.Lo, sc.Hi = true, c.ValuesRange.Min, c.ValuesRange.Max
		}
		s.Criteria = append(s.Criteria, sc)
	}
	cp := func(as []model.AlternativeWithCriteria) []StateAlt {
		var out []StateAlt
		for _, a := range as {
			m := map[string]float64{}
			for k, v := range a.Criteria {
				m[k] = v
			}
			out = append(out, StateAlt{a.Id, m})
		}
		return out
	}
	s.Considered = cp(p.ConsideredAlternatives)
	s.NotConsidered = cp(p.NotConsideredAlternatives)
	s.Params = Dump(p.MethodParameters)
	s.ParamLeaves = Leaves(p.MethodParameters)
	return s
}

func (s State) All() []StateAlt {
	return append(append([]StateAlt{}, s.Considered...), s.NotConsidered...)
}

func (s State) CritIDs() []string {
	var out []string
	for _, c := range s.Criteria {
		out = append(out, c.ID)
	}
	return out
}

// Range of a criterion: declared, else observed over all known alternatives of this state.
func (s State) Range(c StateCrit) (lo, hi float64) {
	if c.HasRange {
		return c.Lo, c.Hi
	}
	first := true
	for _, a := range s.All() {
		v := a.Values[c.ID]
		if first || v < lo {
			lo = v
		}
		if first || v > hi {
			hi = v
		}
		first = false
	}
	return
}

func (s State) Crit(id string) (StateCrit, bool) {
	for _, c := range s.Criteria {
		if c.ID == id {
			return c, true
		}
	}
	return StateCrit{}, false
}

func (s State) Canon() string { return Dump(s) }
