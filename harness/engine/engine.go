// Package engine: shard supervisor, case/violation bookkeeping, evidence and replay files (DESIGN.md 3.5, 4, 7).
package engine

import (
	"encoding/binary"
	"encoding/json"
	"fmt"
	"hash/fnv"
	"os"
	"os/exec"
	"path/filepath"
	"regexp"
	"sort"
	"strconv"
	"strings"
	"sync"
	"sync/atomic"
	"time"
)

// Case is one replayable element of an enumeration.
type Case struct {
	Prop   string                 `json:"property"`
	Kind   string                 `json:"kind"`
	Req    interface{}            `json:"request,omitempty"`
	Script []float64              `json:"script,omitempty"`
	Params map[string]interface{} `json:"params,omitempty"`
}

// Violation is a failed oracle on one case. Sig identifies the failure mode (used for known findings).
type Violation struct {
	Sig  string `json:"sig"`
	Msg  string `json:"msg"`
	Case *Case  `json:"case"`
}

// Property is one registered check.
type Property struct {
	ID       string
	Level    string // evidence level
	Rule     string // how cases are enumerated and what counts as distinct/non-trivial
	Assume   []string
	Run      func(s *Shard)            // enumerate this shard's part of the space
	Check    func(c *Case) []Violation // oracle on one case (used by Run and by replay)
	Finalize func(m *Merged)           // optional cross-shard checks on merged data
}

var Registry = map[string]*Property{}

func Register(p *Property) { Registry[p.ID] = p }

// Shard is the per-process state of an enumeration.
type Shard struct {
	Prop, Tier string
	Idx, N     int
	Seed       int64
	Evals      int64
	caseNo     int64
	distinct   map[uint64]struct{}
	Samples    []interface{}
	Viol       map[string]*Violation
	ViolCount  map[string]int64
	Counters   map[string]int64
	Bounds     map[string]interface{}
	Exhaustive bool
	Notes      []string
	Data       map[string]interface{} // free-form per-shard data for Finalize
	deadline   time.Time
	announce   *os.File
	curCase    atomic.Value // *Case being executed (for the hang watchdog)
	progress   int64
}

// Begin announces the case about to be executed; a case that makes no progress for HangSeconds is reported as a
// violation (<prop>/hang) by the shard's watchdog instead of blocking the check for ever.
func (s *Shard) Begin(c *Case) {
	s.curCase.Store(c)
	atomic.AddInt64(&s.progress, 1)
	if s.announce != nil {
		// crash-attribution re-run: persist the case before executing it (a fatal error cannot be recovered)
		b, _ := json.Marshal(c)
		s.announce.Truncate(0)
		s.announce.WriteAt(b, 0)
	}
}

// Tick tells the hang watchdog that the current case is alive (used while the check waits for a child process that
// reports its own progress).
func (s *Shard) Tick() { atomic.AddInt64(&s.progress, 1) }

// HangSeconds is far above any legitimate case duration (micro- to milliseconds).
var HangSeconds = 120

// Take returns true when the next unit of work belongs to this shard.
func (s *Shard) Take() bool {
	n := s.caseNo
	s.caseNo++
	return int(n%int64(s.N)) == s.Idx
}

// TimeUp reports whether the shard's internal deadline passed (then the run ends with exhaustive:false, exit 0).
func (s *Shard) TimeUp() bool {
	if s.deadline.IsZero() {
		return false
	}
	if time.Now().After(s.deadline) {
		s.Exhaustive = false
		return true
	}
	return false
}

func (s *Shard) Count(name string, d int64) { s.Counters[name] += d }

// Outcome records a canonical outcome; nontrivial ones are counted as distinct.
func (s *Shard) Outcome(nontrivial bool, canon ...interface{}) {
	if !nontrivial {
		return
	}
	h := fnv.New64a()
	for _, c := range canon {
		switch x := c.(type) {
		case string:
			h.Write([]byte(x))
		case []byte:
			h.Write(x)
		default:
			fmt.Fprintf(h, "%v", x)
		}
		h.Write([]byte{0})
	}
	s.distinct[h.Sum64()] = struct{}{}
}

func (s *Shard) Sample(x interface{}) {
	if len(s.Samples) < 3 {
		s.Samples = append(s.Samples, x)
	}
}

func (s *Shard) Report(vs []Violation) {
	for i := range vs {
		v := vs[i]
		s.ViolCount[v.Sig]++
		if _, ok := s.Viol[v.Sig]; !ok {
			s.Viol[v.Sig] = &v
		}
	}
}

type shardOut struct {
	Evals      int64
	Samples    []interface{}
	Viol       map[string]*Violation
	ViolCount  map[string]int64
	Counters   map[string]int64
	Bounds     map[string]interface{}
	Exhaustive bool
	Notes      []string
	Data       map[string]interface{}
}

// RunShard executes one shard in this process and writes its result files into dir.
func RunShard(prop, tier string, idx, n int, dir string) {
	p := Registry[prop]
	if p == nil {
		fmt.Fprintf(os.Stderr, "unknown property %s\n", prop)
		os.Exit(2)
	}
	s := &Shard{Prop: prop, Tier: tier, Idx: idx, N: n, distinct: map[uint64]struct{}{}, Viol: map[string]*Violation{},
		ViolCount: map[string]int64{}, Counters: map[string]int64{}, Bounds: map[string]interface{}{}, Exhaustive: true, Data: map[string]interface{}{}}
	if v := os.Getenv("VERIF_SEED"); v != "" {
		s.Seed, _ = strconv.ParseInt(v, 10, 64)
	}
	if v := os.Getenv("VERIF_DEADLINE_S"); v != "" {
		sec, _ := strconv.Atoi(v)
		s.deadline = time.Now().Add(time.Duration(sec) * time.Second)
	}
	if f := os.Getenv("VERIF_ANNOUNCE"); f != "" {
		s.announce, _ = os.OpenFile(f, os.O_CREATE|os.O_WRONLY|os.O_TRUNC, 0o644)
	}
	done := make(chan struct{})
	hung := make(chan *Case, 1)
	go func() {
		last, since := int64(-1), time.Now()
		for {
			select {
			case <-done:
				return
			case <-time.After(500 * time.Millisecond):
			}
			// progress = cases begun + evaluations counted + work units taken (the last two are plain counters of the
			// enumerating goroutine, read here without synchronisation: only "did it move" matters)
			cur := atomic.LoadInt64(&s.progress) + s.Evals + s.caseNo
			if cur != last {
				last, since = cur, time.Now()
				continue
			}
			if c, _ := s.curCase.Load().(*Case); c != nil && time.Since(since) > time.Duration(HangSeconds)*time.Second {
				hung <- c
				return
			}
		}
	}()
	go func() {
		p.Run(s)
		close(done)
	}()
	select {
	case <-done:
	case c := <-hung:
		// the enumerating goroutine is stuck inside the code under test; it does not touch the shard's maps there
		s.Exhaustive = false
		s.Report([]Violation{{Sig: prop + "/hang", Msg: fmt.Sprintf("no progress for %ds on one case: the request is never answered", HangSeconds), Case: c}})
		s.Notes = append(s.Notes, "shard stopped at a hanging case; the rest of its share was not explored")
	}
	out := shardOut{s.Evals, s.Samples, s.Viol, s.ViolCount, s.Counters, s.Bounds, s.Exhaustive, s.Notes, s.Data}
	b, err := json.Marshal(out)
	if err != nil {
		fmt.Fprintf(os.Stderr, "marshal shard result: %v\n", err)
		os.Exit(2)
	}
	hb := make([]byte, 8*len(s.distinct))
	i := 0
	for h := range s.distinct {
		binary.LittleEndian.PutUint64(hb[i*8:], h)
		i++
	}
	if err := os.WriteFile(filepath.Join(dir, fmt.Sprintf("shard%d.hashes", idx)), hb, 0o644); err != nil {
		os.Exit(2)
	}
	if err := os.WriteFile(filepath.Join(dir, fmt.Sprintf("shard%d.json", idx)), b, 0o644); err != nil {
		os.Exit(2)
	}
}

// Merged is what the supervisor assembles from all shards.
type Merged struct {
	Prop, Tier string
	Evals      int64
	Distinct   int
	Samples    []interface{}
	Viol       map[string]*Violation
	ViolCount  map[string]int64
	Counters   map[string]int64
	Bounds     map[string]interface{}
	Exhaustive bool
	Notes      []string
	ShardData  []map[string]interface{}
	Extra      map[string]interface{} // extra coverage keys (states, transitions, ...)
}

func (m *Merged) AddViolation(v Violation) {
	m.ViolCount[v.Sig]++
	if _, ok := m.Viol[v.Sig]; !ok {
		m.Viol[v.Sig] = &v
	}
}

type finding struct {
	prop, sig, text string
}

func loadKnown(verifDir string) (known []finding) {
	b, err := os.ReadFile(filepath.Join(verifDir, "known_findings.txt"))
	if err != nil {
		return nil
	}
	re := regexp.MustCompile(`^finding:\s+property=(\S+)\s+sig=(\S+)\s+(.*)$`)
	for _, l := range strings.Split(string(b), "\n") {
		if m := re.FindStringSubmatch(strings.TrimSpace(l)); m != nil {
			known = append(known, finding{m[1], m[2], m[3]})
		}
	}
	return
}

func slug(s string) string {
	return regexp.MustCompile(`[^A-Za-z0-9_.-]+`).ReplaceAllString(s, "_")
}

// Supervise runs all shards of a property as subprocesses, merges, writes evidence and replay files, prints the
// verdict lines and returns the exit code.
func Supervise(self, prop, tier, verifDir string, nshards int) int {
	p := Registry[prop]
	if p == nil {
		fmt.Fprintf(os.Stderr, "unknown property %s\n", prop)
		return 2
	}
	start := time.Now()
	dir, err := os.MkdirTemp(filepath.Dir(self), "run-"+prop+"-")
	if err != nil {
		fmt.Fprintln(os.Stderr, err)
		return 2
	}
	defer os.RemoveAll(dir)
	type res struct {
		idx int
		err error
		log string
	}
	var wg sync.WaitGroup
	results := make([]res, nshards)
	for i := 0; i < nshards; i++ {
		wg.Add(1)
		go func(i int) {
			defer wg.Done()
			cmd := exec.Command(self, "shard", prop, tier, strconv.Itoa(i), strconv.Itoa(nshards), dir)
			cmd.Env = append(os.Environ(), "GOMAXPROCS=2")
			out, err := cmd.CombinedOutput()
			results[i] = res{i, err, string(out)}
		}(i)
	}
	wg.Wait()
	m := &Merged{Prop: prop, Tier: tier, Viol: map[string]*Violation{}, ViolCount: map[string]int64{}, Counters: map[string]int64{},
		Bounds: map[string]interface{}{}, Exhaustive: true, Extra: map[string]interface{}{}}
	distinct := map[uint64]struct{}{}
	for i, r := range results {
		var so shardOut
		b, ferr := os.ReadFile(filepath.Join(dir, fmt.Sprintf("shard%d.json", i)))
		if r.err != nil || ferr != nil {
			// a dead worker (fatal error such as stack exhaustion or concurrent map writes, which recover() cannot
			// catch): re-run the shard announcing every case before it is executed and attribute the death to the
			// last announced case.
			ann := filepath.Join(dir, fmt.Sprintf("announce%d.json", i))
			cmd := exec.Command(self, "shard", prop, tier, strconv.Itoa(i), strconv.Itoa(nshards), dir)
			cmd.Env = append(os.Environ(), "GOMAXPROCS=2", "VERIF_ANNOUNCE="+ann)
			out2, err2 := cmd.CombinedOutput()
			ab, _ := os.ReadFile(ann)
			var cc Case
			if err2 == nil || json.Unmarshal(ab, &cc) != nil {
				fmt.Fprintf(os.Stderr, "shard %d of %s failed: %v (not reproducible with announcements: %v)\n%s\n", i, prop, r.err, err2, tail(r.log, 4000))
				return 2
			}
			reason := "process died"
			for _, l := range strings.Split(string(out2), "\n") {
				if strings.HasPrefix(l, "fatal error:") || strings.HasPrefix(l, "runtime:") {
					reason = l
					break
				}
			}
			m.AddViolation(Violation{Sig: prop + "/crash", Msg: "the process executing this case died (" + reason + "); a request like this takes the whole service down", Case: &cc})
			m.Exhaustive = false
			m.Notes = append(m.Notes, fmt.Sprintf("shard %d died at the recorded case; the rest of its share was not explored", i))
			continue
		}
		if err := json.Unmarshal(b, &so); err != nil {
			fmt.Fprintf(os.Stderr, "shard %d: %v\n", i, err)
			return 2
		}
		if r.log != "" {
			fmt.Fprint(os.Stderr, tail(r.log, 2000))
		}
		m.Evals += so.Evals
		for _, s := range so.Samples {
			if len(m.Samples) < 4 {
				m.Samples = append(m.Samples, s)
			}
		}
		for k, v := range so.Viol {
			if old, ok := m.Viol[k]; !ok || caseSize(v) < caseSize(old) {
				m.Viol[k] = v
			}
		}
		for k, v := range so.ViolCount {
			m.ViolCount[k] += v
		}
		for k, v := range so.Counters {
			m.Counters[k] += v
		}
		for k, v := range so.Bounds {
			m.Bounds[k] = v
		}
		m.Exhaustive = m.Exhaustive && so.Exhaustive
		m.Notes = append(m.Notes, so.Notes...)
		m.ShardData = append(m.ShardData, so.Data)
		hb, _ := os.ReadFile(filepath.Join(dir, fmt.Sprintf("shard%d.hashes", i)))
		for j := 0; j+8 <= len(hb); j += 8 {
			distinct[binary.LittleEndian.Uint64(hb[j:])] = struct{}{}
		}
	}
	m.Distinct = len(distinct)
	if p.Finalize != nil {
		p.Finalize(m)
	}
	// classify violations against the committed known-findings file (never written here)
	known := loadKnown(verifDir)
	var sigs []string
	for sgn := range m.Viol {
		sigs = append(sigs, sgn)
	}
	sort.Strings(sigs)
	exit := 0
	knownSeen := []string{}
	newViol := 0
	replayRoot := filepath.Join(verifDir, "replays")
	if d := os.Getenv("VERIF_REPLAY_DIR"); d != "" {
		replayRoot = d
	}
	os.MkdirAll(filepath.Join(replayRoot, prop), 0o755)
	for _, sgn := range sigs {
		v := m.Viol[sgn]
		isKnown := false
		for _, k := range known {
			if k.prop == prop && k.sig == sgn {
				fmt.Printf("KNOWN-FINDING: property=%s sig=%s %s (cases: %d)\n", prop, sgn, k.text, m.ViolCount[sgn])
				knownSeen = append(knownSeen, sgn)
				isKnown = true
			}
		}
		if isKnown {
			continue
		}
		newViol++
		path := filepath.Join(replayRoot, prop, slug(sgn)+".json")
		b, _ := json.MarshalIndent(v, "", " ")
		os.WriteFile(path, b, 0o644)
		if newViol <= 25 {
			fmt.Printf("VIOLATION property=%s replay=%s\n", prop, path)
			fmt.Printf("  sig=%s cases=%d: %s\n", sgn, m.ViolCount[sgn], v.Msg)
		}
		exit = 1
	}
	writeEvidence(p, m, verifDir, time.Since(start).Seconds(), knownSeen, newViol)
	uniqNotes := map[string]bool{}
	for _, n := range m.Notes {
		if !uniqNotes[n] {
			uniqNotes[n] = true
			fmt.Println("note:", n)
		}
	}
	fmt.Printf("%s %s: evaluations=%d distinct_nontrivial=%d exhaustive=%v violations=%d known=%d wall=%.1fs\n",
		prop, tier, m.Evals, m.Distinct, m.Exhaustive, newViol, len(knownSeen), time.Since(start).Seconds())
	return exit
}

func caseSize(v *Violation) int {
	b, _ := json.Marshal(v.Case)
	return len(b)
}

func tail(s string, n int) string {
	if len(s) > n {
		return s[len(s)-n:]
	}
	return s
}

func writeEvidence(p *Property, m *Merged, verifDir string, wall float64, knownSeen []string, newViol int) {
	seed := int64(0)
	if v := os.Getenv("VERIF_SEED"); v != "" {
		seed, _ = strconv.ParseInt(v, 10, 64)
	}
	cov := map[string]interface{}{
		"evaluations":         m.Evals,
		"distinct_nontrivial": m.Distinct,
		"rule":                p.Rule,
		"samples":             m.Samples,
		"exhaustive":          m.Exhaustive,
		"bounds":              m.Bounds,
		"counters":            m.Counters,
		"known_findings_seen": knownSeen,
	}
	for k, v := range m.Extra {
		cov[k] = v
	}
	if len(m.Samples) == 0 {
		cov["samples"] = []interface{}{"(no sample recorded)"}
	}
	ev := map[string]interface{}{
		"property_id": p.ID,
		"tier":        m.Tier,
		"seed":        seed,
		"level":       p.Level,
		"coverage":    cov,
		"assumptions": p.Assume,
		"wall_s":      wall,
		"violations":  newViol,
	}
	b, _ := json.MarshalIndent(ev, "", " ")
	evDir := filepath.Join(verifDir, "evidence")
	if d := os.Getenv("VERIF_EVIDENCE_DIR"); d != "" {
		evDir = d // runs against scratch copies (mutants) must not overwrite the evidence of the real tree
	}
	os.MkdirAll(evDir, 0o755)
	os.WriteFile(filepath.Join(evDir, p.ID+".json"), b, 0o644)
}

// Replay re-checks one recorded violation file without the explorer.
func Replay(path string) int {
	b, err := os.ReadFile(path)
	if err != nil {
		fmt.Fprintln(os.Stderr, err)
		return 2
	}
	var v Violation
	if err := json.Unmarshal(b, &v); err != nil || v.Case == nil {
		fmt.Fprintf(os.Stderr, "bad replay file: %v\n", err)
		return 2
	}
	p := Registry[v.Case.Prop]
	if p == nil || p.Check == nil {
		fmt.Fprintf(os.Stderr, "no replayable check for %s\n", v.Case.Prop)
		return 2
	}
	vs := p.Check(v.Case)
	for _, x := range vs {
		if x.Sig == v.Sig {
			fmt.Printf("VIOLATION property=%s replay=%s\n  sig=%s: %s\n", v.Case.Prop, path, x.Sig, x.Msg)
			return 1
		}
	}
	for _, x := range vs {
		fmt.Printf("other violation on replay: sig=%s: %s\n", x.Sig, x.Msg)
	}
	fmt.Printf("replay of %s: recorded violation %s does not reproduce\n", path, v.Sig)
	if len(vs) > 0 {
		return 1
	}
	return 0
}
