//go:build verif

package engine

import "runtime"

// MapCtl controls the patched runtime's map iteration (see tools/patch_runtime.py): mode 0 free (production
// randomness), 1 every range starts at 0 except range number deviateAt which starts at value, 2 every range starts
// at value. Returns the number of map ranges counted since the previous call.
func MapCtl(mode uint32, deviateAt int64, value uintptr) int64 {
	return runtime.VerifMapCtl(mode, deviateAt, value)
}

// MapHash0 sets the seed of maps created from now on (0 = random as in production).
func MapHash0(v uint32) { runtime.VerifMapHash0(v) }

const MapControl = true
