package engine

import (
	"bytes"
	"encoding/json"
	"fmt"
	"io"
	"log"
	"runtime/debug"

	"github.com/Azbesciak/RealDecisionMaker/lib/model"
	"github.com/gin-gonic/gin"

	"rdmverif/svc"
)

func init() {
	log.SetOutput(io.Discard)
	gin.SetMode(gin.ReleaseMode)
	gin.DefaultWriter = io.Discard
	gin.DefaultErrorWriter = io.Discard
	debug.SetMaxStack(64 << 20)
}

// Outcome of one decision made through the service's own registries.
type Outcome struct {
	Accepted bool
	Choice   *model.DecisionMakerChoice
	Body     []byte // JSON of the response (accepted) exactly as the service would serialise it
	Err      string // panic / bind error text (rejected)
	Streams  []svc.Stream
}

// Decode binds a JSON body the way the handler does (encoding/json into model.DecisionMaker).
func Decode(body []byte) (*model.DecisionMaker, error) {
	var dm model.DecisionMaker
	dec := json.NewDecoder(bytes.NewReader(body))
	if err := dec.Decode(&dm); err != nil {
		return &dm, err
	}
	return &dm, nil
}

// Decide runs one request body through the service's registries (no HTTP layer), optionally under a script.
func Decide(body []byte, script *svc.Script) (out Outcome) {
	dm, err := Decode(body)
	if err != nil {
		return Outcome{Err: "bind: " + err.Error()}
	}
	return DecideDM(dm, script)
}

func DecideDM(dm *model.DecisionMaker, script *svc.Script) (out Outcome) {
	if script != nil {
		svc.SetScript(script)
	}
	defer func() {
		if script != nil {
			svc.SetScript(nil)
			out.Streams = script.Streams
		}
		if e := recover(); e != nil {
			out = Outcome{Err: fmt.Sprint(e), Streams: out.Streams}
		}
	}()
	ch := svc.Decide(dm)
	b, err := json.Marshal(ch)
	if err != nil {
		return Outcome{Err: "marshal: " + err.Error()}
	}
	return Outcome{Accepted: true, Choice: ch, Body: b}
}

// ConstScript answers every generator call with v.
func ConstScript(v float64) *svc.Script {
	return &svc.Script{Answer: func(int, int64, int) float64 { return v }}
}

// SeqScript answers calls (in global call order, across streams) from seq, then def.
func SeqScript(seq []float64, def float64) *svc.Script {
	i := 0
	return &svc.Script{Answer: func(int, int64, int) float64 {
		if i < len(seq) {
			v := seq[i]
			i++
			return v
		}
		i++
		return def
	}}
}

// J marshals or panics (harness-internal values only).
func J(v interface{}) []byte {
	b, err := json.Marshal(v)
	if err != nil {
		panic(err)
	}
	return b
}

type M = map[string]interface{}
type L = []interface{}

// Result entry as seen by a client.
type Entry struct {
	Alternative struct {
		ID       string             `json:"id"`
		Criteria map[string]float64 `json:"criteria"`
	} `json:"alternative"`
	Evaluation         map[string]interface{} `json:"evaluation"`
	BetterThanOrSameAs []string               `json:"betterThanOrSameAs"`
}

type Response struct {
	Result []Entry                  `json:"result"`
	Biases []map[string]interface{} `json:"biases"`
}

func ParseResponse(body []byte) (*Response, error) {
	var r Response
	if err := json.Unmarshal(body, &r); err != nil {
		return nil, err
	}
	return &r, nil
}
