package engine

import (
	"fmt"
	"reflect"
	"sort"
	"strconv"
	"strings"
	"unsafe"
)

// Dump renders any value canonically (sorted map keys, unexported fields included, pointers followed, cycles cut,
// funcs by code pointer). withCap additionally renders the [len:cap] region of slices (C09: spare capacity).
func Dump(v interface{}) string {
	var b strings.Builder
	d := dumper{b: &b, seen: map[uintptr]bool{}}
	d.val(reflect.ValueOf(v), 0)
	return b.String()
}

func DumpCap(v interface{}) string {
	var b strings.Builder
	d := dumper{b: &b, seen: map[uintptr]bool{}, withCap: true}
	d.val(reflect.ValueOf(v), 0)
	return b.String()
}

type dumper struct {
	b       *strings.Builder
	seen    map[uintptr]bool
	withCap bool
}

func (d *dumper) val(v reflect.Value, depth int) {
	if !v.IsValid() {
		d.b.WriteString("nil")
		return
	}
	if depth > 60 {
		d.b.WriteString("<deep>")
		return
	}
	switch v.Kind() {
	case reflect.Bool:
		d.b.WriteString(strconv.FormatBool(v.Bool()))
	case reflect.Int, reflect.Int8, reflect.Int16, reflect.Int32, reflect.Int64:
		d.b.WriteString(strconv.FormatInt(v.Int(), 10))
	case reflect.Uint, reflect.Uint8, reflect.Uint16, reflect.Uint32, reflect.Uint64, reflect.Uintptr:
		d.b.WriteString(strconv.FormatUint(v.Uint(), 10))
	case reflect.Float32, reflect.Float64:
		d.b.WriteString(strconv.FormatFloat(v.Float(), 'g', -1, 64))
	case reflect.Complex64, reflect.Complex128:
		fmt.Fprint(d.b, v.Complex())
	case reflect.String:
		d.b.WriteString(strconv.Quote(v.String()))
	case reflect.Ptr:
		if v.IsNil() {
			d.b.WriteString("nil")
			return
		}
		p := v.Pointer()
		if d.seen[p] && v.Elem().Kind() == reflect.Struct {
			// allow revisits of acyclic shared structure but cut true cycles: track the active path only
		}
		d.b.WriteString("&")
		if d.seen[p] {
			d.b.WriteString("<cycle>")
			return
		}
		d.seen[p] = true
		d.val(v.Elem(), depth+1)
		delete(d.seen, p)
	case reflect.Interface:
		if v.IsNil() {
			d.b.WriteString("nil")
			return
		}
		e := v.Elem()
		d.b.WriteString("(" + e.Type().String() + ")")
		d.val(e, depth+1)
	case reflect.Struct:
		d.b.WriteString("{")
		t := v.Type()
		for i := 0; i < v.NumField(); i++ {
			if i > 0 {
				d.b.WriteString(" ")
			}
			d.b.WriteString(t.Field(i).Name + ":")
			d.val(v.Field(i), depth+1)
		}
		d.b.WriteString("}")
	case reflect.Slice:
		if v.IsNil() {
			d.b.WriteString("nil[]")
			return
		}
		d.b.WriteString("[")
		for i := 0; i < v.Len(); i++ {
			if i > 0 {
				d.b.WriteString(" ")
			}
			d.val(v.Index(i), depth+1)
		}
		if d.withCap && v.Cap() > v.Len() && v.CanAddr() || d.withCap && v.Cap() > v.Len() {
			full := v.Slice3(0, v.Len(), v.Cap()).Slice(0, v.Cap())
			d.b.WriteString(" |cap:")
			for i := v.Len(); i < v.Cap(); i++ {
				d.b.WriteString(" ")
				d.val(full.Index(i), depth+1)
			}
		}
		d.b.WriteString("]")
	case reflect.Array:
		d.b.WriteString("[")
		for i := 0; i < v.Len(); i++ {
			if i > 0 {
				d.b.WriteString(" ")
			}
			d.val(v.Index(i), depth+1)
		}
		d.b.WriteString("]")
	case reflect.Map:
		if v.IsNil() {
			d.b.WriteString("nil{}")
			return
		}
		type kv struct {
			k string
			v reflect.Value
		}
		var kvs []kv
		it := v.MapRange()
		for it.Next() {
			var kb strings.Builder
			kd := dumper{b: &kb, seen: d.seen, withCap: d.withCap}
			kd.val(it.Key(), depth+1)
			kvs = append(kvs, kv{kb.String(), it.Value()})
		}
		sort.Slice(kvs, func(i, j int) bool { return kvs[i].k < kvs[j].k })
		d.b.WriteString("map{")
		for i, e := range kvs {
			if i > 0 {
				d.b.WriteString(" ")
			}
			d.b.WriteString(e.k + ":")
			d.val(e.v, depth+1)
		}
		d.b.WriteString("}")
	case reflect.Func:
		if v.IsNil() {
			d.b.WriteString("nilfunc")
		} else {
			fmt.Fprintf(d.b, "func@%x", v.Pointer())
		}
	case reflect.Chan, reflect.UnsafePointer:
		fmt.Fprintf(d.b, "%s@%x", v.Kind(), v.Pointer())
	default:
		d.b.WriteString("<" + v.Kind().String() + ">")
	}
}

var _ = unsafe.Pointer(nil)

// Leaves flattens a value into path -> scalar (struct field names, sorted map keys, slice indices; pointers and
// interfaces followed; funcs and channels by kind only). Two values of the same shape have the same paths.
func Leaves(v interface{}) map[string]string {
	out := map[string]string{}
	var walk func(v reflect.Value, path string, depth int)
	walk = func(v reflect.Value, path string, depth int) {
		if !v.IsValid() || depth > 40 {
			out[path] = "nil"
			return
		}
		switch v.Kind() {
		case reflect.Ptr, reflect.Interface:
			if v.IsNil() {
				out[path] = "nil"
				return
			}
			walk(v.Elem(), path, depth+1)
		case reflect.Struct:
			t := v.Type()
			for i := 0; i < v.NumField(); i++ {
				walk(v.Field(i), path+"."+t.Field(i).Name, depth+1)
			}
		case reflect.Slice, reflect.Array:
			out[path+"#len"] = strconv.Itoa(v.Len())
			for i := 0; i < v.Len(); i++ {
				walk(v.Index(i), path+"["+strconv.Itoa(i)+"]", depth+1)
			}
		case reflect.Map:
			it := v.MapRange()
			for it.Next() {
				var kb strings.Builder
				kd := dumper{b: &kb, seen: map[uintptr]bool{}}
				kd.val(it.Key(), 0)
				walk(it.Value(), path+"{"+kb.String()+"}", depth+1)
			}
		case reflect.Func, reflect.Chan, reflect.UnsafePointer:
			out[path] = v.Kind().String()
		default:
			out[path] = Dump(valueInterface(v))
		}
	}
	walk(reflect.ValueOf(v), "", 0)
	return out
}

// valueInterface reads a (possibly unexported) scalar field.
func valueInterface(v reflect.Value) interface{} {
	switch v.Kind() {
	case reflect.Bool:
		return v.Bool()
	case reflect.Int, reflect.Int8, reflect.Int16, reflect.Int32, reflect.Int64:
		return v.Int()
	case reflect.Uint, reflect.Uint8, reflect.Uint16, reflect.Uint32, reflect.Uint64, reflect.Uintptr:
		return v.Uint()
	case reflect.Float32, reflect.Float64:
		return v.Float()
	case reflect.String:
		return v.String()
	case reflect.Complex64, reflect.Complex128:
		return v.Complex()
	}
	return "<" + v.Kind().String() + ">"
}
