// Package svc is the service's own main.go re-packaged by tools/svcgen (the generated file is supplied through
// the build overlay). This hand-written part only provides the seam for the seeded generator.
package svc

import (
	"sync/atomic"

	"github.com/Azbesciak/RealDecisionMaker/lib/utils"
)

// Stream describes one generator opened by the code under test.
type Stream struct {
	Seed  int64
	Calls int
}

// Script, when installed, answers every generator call made through the service's seeded-generator factory.
type Script struct {
	// Answer returns the value of call number `call` (0-based) on stream number `stream` opened with `seed`.
	Answer  func(stream int, seed int64, call int) float64
	Streams []Stream
}

var script atomic.Pointer[Script]

// SetScript installs (or with nil removes) the scripted generator. Scripted mode is only used by single-goroutine
// explorations; the pointer itself is read atomically so that concurrent (unscripted) runs are race-free.
func SetScript(s *Script) { script.Store(s) }

func verifSeeded(seed int64) utils.ValueGenerator {
	s := script.Load()
	if s == nil {
		return utils.RandomBasedSeedValueGenerator(seed)
	}
	id := len(s.Streams)
	s.Streams = append(s.Streams, Stream{Seed: seed})
	return func() float64 {
		c := s.Streams[id].Calls
		s.Streams[id].Calls++
		return s.Answer(id, seed, c)
	}
}

// Seeded exposes the factory the registries were built with (scripted when a script is installed).
func Seeded(seed int64) utils.ValueGenerator { return verifSeeded(seed) }
