#!/bin/bash
# check.sh <ID> <quick|thorough>  |  check.sh replay <file>
# Rebuilds the harness from the current working tree of $VERIF_REPO (default /repo) and runs one property check.
set -uo pipefail
cd "$(dirname "$0")"
source ./build.sh
set +e
exec 9>"$VERIF_DIR/build/.lock.$KEY"
flock 9
if ! build_harness > "$BUILD/build.log" 2>&1; then
  cat "$BUILD/build.log" >&2
  echo "harness build failed for $REPO" >&2
  exit 2
fi
export VERIF_REPO_DIR="$REPO" VERIF_BUILD_DIR="$BUILD" VERIF_DIR
BINARY="$BUILD/rdmcheck"
if [ "$1" = "C10" ] || { [ "$1" = "replay" ] && grep -q '"property": *"C10"' "$2" 2>/dev/null; }; then
  # C10 runs on the instrumented binary (yield point before every statement) and needs the -race binary
  if ! build_sched > "$BUILD/build_sched.log" 2>&1; then
    cat "$BUILD/build_sched.log" >&2
    echo "instrumented build failed for $REPO" >&2
    exit 2
  fi
  BINARY="$BUILD/rdmsched"
fi
if [ "$1" = "C20" ] && [ "${2:-quick}" = "thorough" ]; then
  build_server > "$BUILD/build_server.log" 2>&1 || { cat "$BUILD/build_server.log" >&2; echo "service binary build failed" >&2; exit 2; }
fi
flock -u 9
if [ "$1" = "replay" ]; then
  exec "$BINARY" replay "$2"
fi
ID="$1"; TIER="${2:-quick}"
exec "$BINARY" run "$ID" "$TIER" "$VERIF_DIR"
