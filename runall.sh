#!/bin/bash
# runall.sh [tier] — run every registered check sequentially on /repo (regenerates all evidence files).
cd "$(dirname "$0")"
TIER="${1:-quick}"
rc=0
for id in $(python3 -c "import json;print(' '.join(c['property_id'] for c in json.load(open('MANIFEST.json'))['checks']))"); do
  ./check.sh $id $TIER > /tmp/runall.$id.log 2>&1; r=$?
  tail -1 /tmp/runall.$id.log
  grep -h "^VIOLATION\|^KNOWN-FINDING" /tmp/runall.$id.log | cut -c1-200
  [ $r -ne 0 ] && rc=1
  rm -f /tmp/runall.$id.log
done
exit $rc
