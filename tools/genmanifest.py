#!/usr/bin/env python3
"""Regenerates MANIFEST.json from the table below (kept in one place so it stays valid)."""
import json, os
here = os.path.dirname(os.path.abspath(__file__))
root = os.path.dirname(here)
checks = json.load(open(os.path.join(here, "manifest_checks.json")))
props = [json.loads(l)["id"] for l in open(os.path.join(root, "properties.jsonl"))]
claimed = {c["property_id"] for c in checks["checks"]}
na = [{"property_id": p, "reason": checks["not_yet"].get(p, "check not built yet (work in progress); design in DESIGN.md section 6")} for p in props if p not in claimed]
m = {
 "version": 1,
 "setup_cmd": "./setup.sh",
 "hooks": {
  "guard": "verif",
  "enable": "go build -tags verif -modfile build/<key>/go.mod -overlay build/<key>/overlay.json (generated files only: re-packaged httpClient/main.go, per-package globals accessors, patched copies of runtime map/alg/rand sources, yield-point instrumented copies for C10); nothing is committed to /repo",
  "baseline_off_cmd": "cd /repo/lib && GOFLAGS=-mod=mod GOPROXY=off go test -vet=off -count=1 ./...",
  "source_commits": [],
  "add_only": True
 },
 "engines": checks["engines"],
 "checks": [],
 "not_applicable": na,
 "notes": checks["notes"],
}
for c in checks["checks"]:
    pid = c["property_id"]
    m["checks"].append({
     "property_id": pid,
     "quick_cmd": f"./check.sh {pid} quick",
     "thorough_cmd": f"./check.sh {pid} thorough",
     "evidence_file": f"evidence/{pid}.json",
     "replay_cmd_template": "./check.sh replay {path}",
     "engine": c["engine"],
     "level_claimed": {"category": c["level"], "text": c["text"], "design_ref": c["design_ref"]},
     "level_note": c["note"],
     "technique": c["technique"],
    })
json.dump(m, open(os.path.join(root, "MANIFEST.json"), "w"), indent=1)
print("MANIFEST.json:", len(m["checks"]), "checks,", len(na), "not yet claimed")
