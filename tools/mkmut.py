#!/usr/bin/env python3
"""mkmut.py <name> <path-relative-to-repo> <old> <new> [<path2> <old2> <new2> ...] -> mutants/<name>.patch"""
import sys, os, subprocess, tempfile, shutil
name = sys.argv[1]
triples = sys.argv[2:]
tmp = tempfile.mkdtemp(prefix="mkmut-", dir="/tmp")
try:
    diffs = []
    for i in range(0, len(triples), 3):
        rel, old, new = triples[i:i+3]
        bpath = os.path.join(tmp, "b", rel)
        src = open(bpath if os.path.exists(bpath) else os.path.join("/repo", rel)).read()
        if src.count(old) != 1:
            sys.exit(f"{rel}: pattern found {src.count(old)} times")
        os.makedirs(os.path.join(tmp, "b", os.path.dirname(rel)), exist_ok=True)
        os.makedirs(os.path.join(tmp, "a", os.path.dirname(rel)), exist_ok=True)
        shutil.copy(os.path.join("/repo", rel), os.path.join(tmp, "a", rel))
        open(os.path.join(tmp, "b", rel), "w").write(src.replace(old, new))
    r = subprocess.run(["diff", "-ruN", "a", "b"], cwd=tmp, capture_output=True, text=True)
    open(f"/verif/mutants/{name}.patch", "w").write(r.stdout)
    print(r.stdout)
finally:
    shutil.rmtree(tmp)
