// svcgen re-packages $REPO/httpClient/main.go as package svc of the harness module.
// It carries no hand-written knowledge of internal identifiers: the glue is derived from the AST
// (the MakeDecision call's argument list, the blocking Run call, the seeded generator selector).
package main

import (
	"bytes"
	"fmt"
	"go/ast"
	"go/format"
	"go/parser"
	"go/printer"
	"go/token"
	"os"
	"strings"
)

func die(f string, a ...interface{}) {
	fmt.Fprintf(os.Stderr, "svcgen: "+f+"\n", a...)
	os.Exit(2)
}

func main() {
	if len(os.Args) != 3 {
		die("usage: svcgen <main.go> <out.go>")
	}
	fset := token.NewFileSet()
	f, err := parser.ParseFile(fset, os.Args[1], nil, parser.ParseComments)
	if err != nil {
		die("%v", err)
	}
	f.Name.Name = "svc"
	f.Comments = nil // drop go:generate etc.
	// 1. every utils.RandomBasedSeedValueGenerator -> verifSeeded
	replaced := 0
	ast.Inspect(f, func(n ast.Node) bool {
		switch x := n.(type) {
		case *ast.CompositeLit:
			for i, e := range x.Elts {
				if isSeeded(e) {
					x.Elts[i] = ast.NewIdent("verifSeeded")
					replaced++
				}
				if kv, ok := e.(*ast.KeyValueExpr); ok && isSeeded(kv.Value) {
					kv.Value = ast.NewIdent("verifSeeded")
					replaced++
				}
			}
		case *ast.CallExpr:
			for i, e := range x.Args {
				if isSeeded(e) {
					x.Args[i] = ast.NewIdent("verifSeeded")
					replaced++
				}
			}
		case *ast.ValueSpec:
			for i, e := range x.Values {
				if isSeeded(e) {
					x.Values[i] = ast.NewIdent("verifSeeded")
					replaced++
				}
			}
		case *ast.AssignStmt:
			for i, e := range x.Rhs {
				if isSeeded(e) {
					x.Rhs[i] = ast.NewIdent("verifSeeded")
					replaced++
				}
			}
		}
		return true
	})
	// 2. MakeDecision call: copy its argument list for the glue
	var decideArgs []string
	var globals []string
	ast.Inspect(f, func(n ast.Node) bool {
		if c, ok := n.(*ast.CallExpr); ok {
			if s, ok := c.Fun.(*ast.SelectorExpr); ok && s.Sel.Name == "MakeDecision" && decideArgs == nil {
				for _, a := range c.Args {
					var b bytes.Buffer
					printer.Fprint(&b, fset, a)
					decideArgs = append(decideArgs, b.String())
				}
			}
		}
		return true
	})
	if len(decideArgs) != 4 {
		die("MakeDecision call with 4 arguments not found")
	}
	// 3. main() -> BuildEngine() *gin.Engine ; the blocking Run call -> return of its receiver
	foundMain, foundRun := false, false
	for _, d := range f.Decls {
		switch x := d.(type) {
		case *ast.FuncDecl:
			if x.Name.Name == "main" && x.Recv == nil {
				foundMain = true
				x.Name.Name = "BuildEngine"
				x.Type.Results = &ast.FieldList{List: []*ast.Field{{Type: &ast.StarExpr{X: &ast.SelectorExpr{X: ast.NewIdent("gin"), Sel: ast.NewIdent("Engine")}}}}}
				for i, st := range x.Body.List {
					var recv ast.Expr
					ast.Inspect(st, func(n ast.Node) bool {
						if c, ok := n.(*ast.CallExpr); ok {
							if s, ok := c.Fun.(*ast.SelectorExpr); ok && (s.Sel.Name == "Run" || s.Sel.Name == "RunTLS") {
								recv = s.X
							}
						}
						return true
					})
					if recv != nil {
						x.Body.List[i] = &ast.ReturnStmt{Results: []ast.Expr{recv}}
						x.Body.List = x.Body.List[:i+1]
						foundRun = true
						break
					}
				}
			}
		case *ast.GenDecl:
			if x.Tok == token.VAR {
				for _, s := range x.Specs {
					for _, n := range s.(*ast.ValueSpec).Names {
						if n.Name != "_" {
							globals = append(globals, n.Name)
						}
					}
				}
			}
		}
	}
	if !foundMain || !foundRun {
		die("func main with a blocking Run call not found")
	}
	var out bytes.Buffer
	if err := format.Node(&out, fset, f); err != nil {
		die("%v", err)
	}
	src := out.String()
	// "log" may become unused after cutting main's tail; keep imports alive generically
	var glue strings.Builder
	glue.WriteString("\n// ---- generated glue (svcgen) ----\n")
	for _, im := range f.Imports {
		if im.Path.Value == `"log"` && im.Name == nil {
			glue.WriteString("var _ = log.Println\n")
		}
	}
	fmt.Fprintf(&glue, "func Decide(dm *model.DecisionMaker) *model.DecisionMakerChoice {\n\treturn dm.MakeDecision(%s)\n}\n", strings.Join(decideArgs, ", "))
	fmt.Fprintf(&glue, "func Registry() []interface{} {\n\treturn []interface{}{%s}\n}\n", strings.Join(decideArgs, ", "))
	glue.WriteString("func GlobalRoots() map[string]interface{} {\n\treturn map[string]interface{}{\n")
	for _, g := range globals {
		fmt.Fprintf(&glue, "\t\t%q: &%s,\n", g, g)
	}
	glue.WriteString("\t}\n}\n")
	fmt.Fprintf(&glue, "const SeededReplaced = %d\n", replaced)
	if err := os.WriteFile(os.Args[2], []byte(src+glue.String()), 0o644); err != nil {
		die("%v", err)
	}
}

func isSeeded(e ast.Expr) bool {
	s, ok := e.(*ast.SelectorExpr)
	if !ok {
		return false
	}
	x, ok := s.X.(*ast.Ident)
	return ok && x.Name == "utils" && s.Sel.Name == "RandomBasedSeedValueGenerator"
}
