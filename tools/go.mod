module rdmtools

go 1.21
