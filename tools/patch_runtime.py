#!/usr/bin/env python3
"""Generate patched copies of GOROOT/src/runtime/{map,alg,rand,map_fast32,map_fast64,map_faststr}.go for the
harness build overlay (DESIGN.md 3.3).  Every pattern must match the expected number of times or we fail loudly:
a silent partial patch would leave map order random and make executions non-replayable."""
import json, os, re, subprocess, sys

out = sys.argv[1]
goroot = subprocess.check_output(["go", "env", "GOROOT"], text=True).strip()
rt = os.path.join(goroot, "src", "runtime")
os.makedirs(out, exist_ok=True)
overlay = {}


def patch(name, subs, append=""):
    src = open(os.path.join(rt, name)).read()
    for pat, rep, n in subs:
        cnt = src.count(pat)
        if cnt != n:
            sys.exit(f"patch_runtime: {name}: pattern {pat!r} found {cnt} times, expected {n}")
        src = src.replace(pat, rep)
    src += append
    dst = os.path.join(out, name)
    open(dst, "w").write(src)
    overlay[os.path.join(rt, name)] = dst


patch("map.go", [
    ("h.hash0 = uint32(rand())", "h.hash0 = verifHash0()", 4),
    ("r := uintptr(rand())", "r := verifIterStart()", 1),
    ("r := int(rand())", "r := int(verifIterStart())", 2),
], append='''

// ---- verif: enumerable map iteration order and fixed map seeds (harness builds only) ----
var verifHash0Value uint32 = 0x9e3779b9
var verifMapIterMode uint32 = 1
var verifMapIterCount int64
var verifMapIterDeviateAt int64 = -1
var verifMapIterValue uintptr

func verifHash0() uint32 {
	if verifHash0Value != 0 {
		return verifHash0Value
	}
	return uint32(rand())
}

func verifIterStart() uintptr {
	if verifMapIterMode == 0 {
		return uintptr(rand())
	}
	i := atomic.Xaddint64(&verifMapIterCount, 1) - 1
	if verifMapIterMode == 2 || i == verifMapIterDeviateAt {
		return verifMapIterValue
	}
	return 0
}

// VerifMapCtl sets the map-iteration mode (0 free, 1 all ranges start at 0 except range number deviateAt which
// starts at value, 2 all ranges start at value), resets the range counter and returns its previous value.
func VerifMapCtl(mode uint32, deviateAt int64, value uintptr) int64 {
	old := verifMapIterCount
	verifMapIterMode = mode
	verifMapIterDeviateAt = deviateAt
	verifMapIterValue = value
	verifMapIterCount = 0
	return old
}

// VerifMapHash0 sets the per-map seed used for maps created from now on (0 = random, as in production).
func VerifMapHash0(v uint32) { verifHash0Value = v }
''')
for f in ("map_fast32.go", "map_fast64.go", "map_faststr.go"):
    patch(f, [("h.hash0 = uint32(rand())", "h.hash0 = verifHash0()", 1)])
patch("rand.go", [("func rand32() uint32 {\n\treturn uint32(rand())\n}", "func rand32() uint32 {\n\treturn verifHash0()\n}", 1)])
patch("alg.go", [
    ("hashkey[i] = uintptr(bootstrapRand())", "hashkey[i] = uintptr(0x9e3779b97f4a7c15 + uint64(i)*0x1234567)", 1),
    ("key[i] = bootstrapRand()", "key[i] = 0x9e3779b97f4a7c15 + uint64(i)*0x1234567", 1),
])
json.dump(overlay, open(os.path.join(out, "frag.json"), "w"), indent=1)
