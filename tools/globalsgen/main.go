// globalsgen: for every non-test package under $REPO/lib that declares package-level variables, generate
// (as an overlay file, nothing is written into the repository) zz_verif_globals.go exposing their addresses,
// plus an aggregator file for the harness. The root set of the shared-state fingerprint thus follows the tree.
package main

import (
	"encoding/json"
	"fmt"
	"go/ast"
	"go/parser"
	"go/token"
	"os"
	"path/filepath"
	"sort"
	"strings"
)

func die(f string, a ...interface{}) {
	fmt.Fprintf(os.Stderr, "globalsgen: "+f+"\n", a...)
	os.Exit(2)
}

func main() {
	if len(os.Args) != 5 {
		die("usage: globalsgen <repo/lib> <outdir> <aggregator-virtual-path> <overlay-fragment.json>")
	}
	lib, outDir, aggPath, fragPath := os.Args[1], os.Args[2], os.Args[3], os.Args[4]
	os.MkdirAll(outDir, 0o755)
	type pkg struct {
		dir, name, imp string
		vars           []string
	}
	pkgs := map[string]*pkg{}
	filepath.Walk(lib, func(p string, info os.FileInfo, err error) error {
		if err != nil || info.IsDir() || !strings.HasSuffix(p, ".go") || strings.HasSuffix(p, "_test.go") {
			return nil
		}
		fset := token.NewFileSet()
		f, err := parser.ParseFile(fset, p, nil, 0)
		if err != nil {
			die("%v", err)
		}
		dir := filepath.Dir(p)
		pk := pkgs[dir]
		if pk == nil {
			rel, _ := filepath.Rel(lib, dir)
			pk = &pkg{dir: dir, name: f.Name.Name, imp: "github.com/Azbesciak/RealDecisionMaker/lib/" + filepath.ToSlash(rel)}
			pkgs[dir] = pk
		}
		for _, d := range f.Decls {
			if g, ok := d.(*ast.GenDecl); ok && g.Tok == token.VAR {
				for _, s := range g.Specs {
					for _, n := range s.(*ast.ValueSpec).Names {
						if n.Name != "_" {
							pk.vars = append(pk.vars, n.Name)
						}
					}
				}
			}
		}
		return nil
	})
	overlay := map[string]string{}
	var dirs []string
	for d, p := range pkgs {
		if len(p.vars) > 0 {
			dirs = append(dirs, d)
		}
	}
	sort.Strings(dirs)
	var agg strings.Builder
	agg.WriteString("package svc\n\nimport (\n")
	for i, d := range dirs {
		fmt.Fprintf(&agg, "\tg%d %q\n", i, pkgs[d].imp)
	}
	agg.WriteString(")\n\nfunc LibGlobalRoots() map[string]interface{} {\n\tr := map[string]interface{}{}\n")
	for i, d := range dirs {
		p := pkgs[d]
		sort.Strings(p.vars)
		var b strings.Builder
		fmt.Fprintf(&b, "package %s\n\nfunc VerifGlobalsG%d() map[string]interface{} {\n\treturn map[string]interface{}{\n", p.name, i)
		for _, v := range p.vars {
			fmt.Fprintf(&b, "\t\t%q: &%s,\n", v, v)
		}
		b.WriteString("\t}\n}\n")
		out := filepath.Join(outDir, fmt.Sprintf("g%d.go", i))
		if err := os.WriteFile(out, []byte(b.String()), 0o644); err != nil {
			die("%v", err)
		}
		overlay[filepath.Join(d, "zz_verif_globals.go")] = out
		fmt.Fprintf(&agg, "\tfor k, v := range g%d.VerifGlobalsG%d() {\n\t\tr[%q+k] = v\n\t}\n", i, i, p.imp+".")
	}
	agg.WriteString("\treturn r\n}\n")
	aggOut := filepath.Join(outDir, "agg.go")
	os.WriteFile(aggOut, []byte(agg.String()), 0o644)
	overlay[aggPath] = aggOut
	js, _ := json.MarshalIndent(overlay, "", " ")
	os.WriteFile(fragPath, js, 0o644)
}
