package main

func main() {}
