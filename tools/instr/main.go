// instr: statement-level yield-point instrumentation for the schedule explorer (DESIGN.md 6.C10).
// Usage: instr <outdir> <fragment.json> <file.go>...   — writes an instrumented copy of every file and an overlay
// fragment mapping original -> copy. A call verifsched.P(id) is inserted before every statement of every block,
// case clause and comm clause; `import "sync"` is redirected to the cooperative shim. `go` statements are reported.
package main

import (
	"bytes"
	"encoding/json"
	"fmt"
	"go/ast"
	"go/format"
	"go/parser"
	"go/printer"
	"go/token"
	"os"
	"path/filepath"
	"strconv"
)

const schedPath = "github.com/Azbesciak/RealDecisionMaker/lib/verifsched"

type pointInfo struct {
	ID    int    `json:"id"`
	File  string `json:"file"`
	Line  int    `json:"line"`
	Func  string `json:"func"`
	Entry bool   `json:"entry"`
}

func main() {
	if len(os.Args) < 4 {
		fmt.Fprintln(os.Stderr, "usage: instr <outdir> <fragment.json> <files...>")
		os.Exit(2)
	}
	outDir, frag := os.Args[1], os.Args[2]
	os.MkdirAll(outDir, 0o755)
	overlay := map[string]string{}
	var points []pointInfo
	goStmts := 0
	nextID := 1
	for fi, path := range os.Args[3:] {
		fset := token.NewFileSet()
		f, err := parser.ParseFile(fset, path, nil, parser.ParseComments)
		if err != nil {
			fmt.Fprintln(os.Stderr, "instr:", err)
			os.Exit(2)
		}
		// redirect sync
		for _, im := range f.Imports {
			if im.Path.Value == `"sync"` {
				im.Path.Value = strconv.Quote(schedPath + "/vsync")
				if im.Name == nil {
					im.Name = ast.NewIdent("sync")
				}
			}
		}
		curFunc := ""
		mk := func(pos token.Pos, entry bool) ast.Stmt {
			id := nextID
			nextID++
			p := fset.Position(pos)
			points = append(points, pointInfo{id, path, p.Line, curFunc, entry})
			return &ast.ExprStmt{X: &ast.CallExpr{
				Fun:  &ast.SelectorExpr{X: ast.NewIdent("verifsched__"), Sel: ast.NewIdent("P")},
				Args: []ast.Expr{&ast.BasicLit{Kind: token.INT, Value: strconv.Itoa(id)}},
			}}
		}
		instrList := func(list []ast.Stmt, entry bool) []ast.Stmt {
			var out []ast.Stmt
			for i, st := range list {
				if _, isGo := st.(*ast.GoStmt); isGo {
					goStmts++
				}
				out = append(out, mk(st.Pos(), entry && i == 0), st)
			}
			return out
		}
		var walk func(n ast.Node, entryBody *ast.BlockStmt)
		walk = func(n ast.Node, entryBody *ast.BlockStmt) {
			ast.Inspect(n, func(x ast.Node) bool {
				switch b := x.(type) {
				case *ast.FuncDecl:
					if b.Body != nil {
						old := curFunc
						curFunc = b.Name.Name
						walk(b.Body, b.Body)
						curFunc = old
					}
					return false
				case *ast.FuncLit:
					old := curFunc
					curFunc = curFunc + ".func"
					walk(b.Body, b.Body)
					curFunc = old
					return false
				case *ast.SwitchStmt:
					for _, cl := range b.Body.List {
						walk(cl, nil)
					}
					return false
				case *ast.TypeSwitchStmt:
					for _, cl := range b.Body.List {
						walk(cl, nil)
					}
					return false
				case *ast.SelectStmt:
					for _, cl := range b.Body.List {
						walk(cl, nil)
					}
					return false
				case *ast.BlockStmt:
					for _, st := range b.List {
						walk(st, nil)
					}
					b.List = instrList(b.List, b == entryBody)
					return false
				case *ast.CaseClause:
					for _, st := range b.Body {
						walk(st, nil)
					}
					b.Body = instrList(b.Body, false)
					return false
				case *ast.CommClause:
					for _, st := range b.Body {
						walk(st, nil)
					}
					b.Body = instrList(b.Body, false)
					return false
				}
				return true
			})
		}
		for _, d := range f.Decls {
			walk(d, nil)
		}
		var buf bytes.Buffer
		// drop comments that would be misplaced by statement insertion (keep build constraints out of lib files anyway)
		f.Comments = nil
		if err := format.Node(&buf, fset, f); err != nil {
			var b2 bytes.Buffer
			printer.Fprint(&b2, fset, f)
			os.WriteFile("/tmp/instr_broken.go", b2.Bytes(), 0o644)
			fmt.Fprintln(os.Stderr, "instr:", path, err)
			os.Exit(2)
		}
		src := buf.String()
		// add the import after the package clause
		idx := bytes.Index([]byte(src), []byte("\n"))
		pkgEnd := bytes.Index([]byte(src), []byte("package "))
		nl := bytes.IndexByte([]byte(src[pkgEnd:]), '\n')
		_ = idx
		src = src[:pkgEnd+nl+1] + "\nimport verifsched__ \"" + schedPath + "\"\n" + src[pkgEnd+nl+1:] + "\nvar _ = verifsched__.P\n"
		out := filepath.Join(outDir, fmt.Sprintf("f%03d_%s", fi, filepath.Base(path)))
		if err := os.WriteFile(out, []byte(src), 0o644); err != nil {
			fmt.Fprintln(os.Stderr, err)
			os.Exit(2)
		}
		overlay[path] = out
	}
	js, _ := json.MarshalIndent(overlay, "", " ")
	os.WriteFile(frag, js, 0o644)
	pj, _ := json.Marshal(map[string]interface{}{"points": points, "go_statements": goStmts})
	os.WriteFile(filepath.Join(outDir, "points.json"), pj, 0o644)
	fmt.Printf("instr: %d files, %d yield points, %d go statements\n", len(os.Args[3:]), len(points), goStmts)
}
