// Package vsync: the sync primitives used by the code under test, cooperative under the schedule explorer and
// delegating to the real package otherwise.
package vsync

import (
	"sync"

	"github.com/Azbesciak/RealDecisionMaker/lib/verifsched"
)

type Locker = sync.Locker
type Pool = sync.Pool
type Map = sync.Map
type Cond = sync.Cond

type Mutex struct {
	real sync.Mutex
	held bool
}

func (m *Mutex) Lock() {
	verifsched.P(-1)
	if verifsched.BlockUntil(func() bool { return !m.held }) {
		m.held = true
		return
	}
	m.real.Lock()
}

func (m *Mutex) Unlock() {
	if verifsched.Active() && m.held {
		m.held = false
		verifsched.P(-2)
		return
	}
	m.real.Unlock()
}

type RWMutex struct {
	real    sync.RWMutex
	writer  bool
	readers int
}

func (m *RWMutex) Lock() {
	verifsched.P(-1)
	if verifsched.BlockUntil(func() bool { return !m.writer && m.readers == 0 }) {
		m.writer = true
		return
	}
	m.real.Lock()
}
func (m *RWMutex) Unlock() {
	if verifsched.Active() && m.writer {
		m.writer = false
		verifsched.P(-2)
		return
	}
	m.real.Unlock()
}
func (m *RWMutex) RLock() {
	verifsched.P(-1)
	if verifsched.BlockUntil(func() bool { return !m.writer }) {
		m.readers++
		return
	}
	m.real.RLock()
}
func (m *RWMutex) RUnlock() {
	if verifsched.Active() && m.readers > 0 {
		m.readers--
		verifsched.P(-2)
		return
	}
	m.real.RUnlock()
}

type Once struct {
	real    sync.Once
	done    bool
	running bool
}

func (o *Once) Do(f func()) {
	if !verifsched.Active() {
		if o.done {
			return
		}
		o.real.Do(func() { f(); o.done = true })
		return
	}
	verifsched.P(-3)
	if o.done {
		return
	}
	if o.running {
		verifsched.BlockUntil(func() bool { return o.done })
		return
	}
	o.running = true
	defer func() { o.done, o.running = true, false }()
	f()
}

type WaitGroup struct {
	real sync.WaitGroup
	n    int
}

func (w *WaitGroup) Add(d int) { w.n += d; w.real.Add(d) }
func (w *WaitGroup) Done()     { w.n--; w.real.Done(); verifsched.P(-2) }
func (w *WaitGroup) Wait() {
	if verifsched.BlockUntil(func() bool { return w.n <= 0 }) {
		return
	}
	w.real.Wait()
}
