// Package verifsched: cooperative scheduler behind the yield points inserted by tools/instr (harness builds only;
// supplied to the build through the overlay as lib/verifsched). With no run installed P is one predictable branch.
package verifsched

import (
	"fmt"
	"sync/atomic"
	"unsafe"
)

type Switch struct {
	At int64 // global step number (1-based) before which control moves ...
	To int   // ... to this thread
}

type thread struct {
	id      int
	resume  chan struct{}
	done    bool
	blocked func() bool // non-nil while waiting on a shim primitive
	started bool
}

type event struct {
	kind int // 0 yield-to, 1 done, 2 blocked
	to   int
}

// Run is one controlled execution of k thread bodies.
type Run struct {
	threads  []*thread
	cur      *thread
	Step     int64
	switches []Switch
	next     int
	back     chan event
	// Hook, if set, is called at every step by the running thread (thread id, global step, point id).
	Hook     func(thread int, step int64, point int32)
	Deadlock bool
	inHook   bool
	Steps    []int64 // steps executed per thread
}

var active unsafe.Pointer // *Run

func load() *Run { return (*Run)(atomic.LoadPointer(&active)) }

// P is the yield point. id identifies the source position (see points.json of the instrumenter).
func P(id int32) {
	r := load()
	if r == nil {
		return
	}
	r.point(id)
}

func (r *Run) point(id int32) {
	t := r.cur
	if t == nil || r.inHook {
		return // yield points reached from inside the harness hook (e.g. generated accessors) are not steps
	}
	r.Step++
	r.Steps[t.id]++
	if r.Hook != nil {
		r.inHook = true
		r.Hook(t.id, r.Step, id)
		r.inHook = false
	}
	if r.next < len(r.switches) && r.Step == r.switches[r.next].At {
		to := r.switches[r.next].To
		r.next++
		if to != t.id && to >= 0 && to < len(r.threads) && !r.threads[to].done {
			r.back <- event{0, to}
			<-t.resume
		}
	}
}

// Active reports whether a controlled run is in progress (used by the sync shim).
func Active() bool { return load() != nil }

// BlockUntil parks the calling managed thread until cond() holds; other threads run meanwhile. Returns false when
// called outside a controlled run (the caller then falls back to the real primitive).
func BlockUntil(cond func() bool) bool {
	r := load()
	if r == nil || r.cur == nil {
		return false
	}
	t := r.cur
	for !cond() {
		t.blocked = cond
		r.back <- event{2, -1}
		<-t.resume
		t.blocked = nil
	}
	return true
}

// Execute runs bodies as cooperative threads: thread order[0] starts; a finished (or blocked) thread hands over to the
// first runnable thread in `order`; the switches preempt. It returns when every thread finished (or on deadlock).
func Execute(bodies []func(), order []int, switches []Switch, hook func(thread int, step int64, point int32)) *Run {
	r := &Run{switches: switches, back: make(chan event), Hook: hook, Steps: make([]int64, len(bodies))}
	for i := range bodies {
		r.threads = append(r.threads, &thread{id: i, resume: make(chan struct{})})
	}
	for i, b := range bodies {
		t, body := r.threads[i], b
		go func() {
			<-t.resume
			defer func() {
				t.done = true
				r.back <- event{1, -1}
			}()
			body()
		}()
	}
	if !atomic.CompareAndSwapPointer(&active, nil, unsafe.Pointer(r)) {
		panic("verifsched: nested controlled runs")
	}
	defer atomic.StorePointer(&active, nil)
	pick := func() *thread {
		for _, i := range order {
			t := r.threads[i]
			if !t.done && (t.blocked == nil || t.blocked()) {
				return t
			}
		}
		return nil
	}
	t := pick()
	for t != nil {
		r.cur = t
		t.resume <- struct{}{}
		ev := <-r.back
		switch ev.kind {
		case 0:
			t = r.threads[ev.to]
			if t.done {
				t = pick()
			}
		default:
			t = pick()
		}
	}
	r.cur = nil
	for _, th := range r.threads {
		if !th.done {
			r.Deadlock = true
		}
	}
	return r
}

func (r *Run) String() string { return fmt.Sprintf("steps=%d per-thread=%v", r.Step, r.Steps) }
