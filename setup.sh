#!/bin/bash
# setup.sh — run once after a fresh restore (offline): build the generators, patch a copy of the runtime sources,
# pre-build the harness for the current /repo tree so that the first check does not pay for a cold build cache.
set -euo pipefail
cd "$(dirname "$0")"
source ./build.sh
build_tools
build_harness
build_sched
echo "setup ok: $BUILD/rdmcheck"
